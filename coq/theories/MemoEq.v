(* C05, whole grammars: @memoize is transparent.
   A  = the model of the generated parser of a grammar g (any subset of rules
        marked @memoize, no @leftrec rule),
   B  = the model of the generated parser of the same grammar with every
        @memoize marker removed.
   For every input, rule, fuel n for A and fuel m for B: whenever both return,
   they accept the same inputs, return the same tree and stop at the same
   offset (errors may differ in detail).  Hooks may be stateful, but their
   results must not depend on the user state (side-effect free as far as the
   parse can see).
   The proof carries the invariant "every cache entry of A is what B computes
   for that rule at that offset". *)
From Coq Require Import Lia.
From PegV Require Import Utf8 State Terminals Syntax Fields FieldsFacts Literals Model FuelMono.

Ltac triv := first [exact I | reflexivity].


(* ---- removing the markers ------------------------------------------------------ *)
Definition not_memo (d : directive) : bool := match d with DMemoize => false | _ => true end.
Definition strip_rule (r : rule) : rule :=
  {| r_directives := filter not_memo (r_directives r); r_name := r_name r; r_def := r_def r |}.
Definition strip_grule (x : grule) : grule := match x with GRule r => GRule (strip_rule r) | y => y end.
Definition strip (g : grammar) : grammar := map strip_grule g.

Lemma has_dir_strip p ds : (p DMemoize = false) -> has_dir p (filter not_memo ds) = has_dir p ds.
Proof.
  intro Hp. unfold has_dir. induction ds as [|d ds IH]; [reflexivity|]. cbn.
  destruct d; cbn; rewrite ?IH; try reflexivity. rewrite Hp. reflexivity.
Qed.

Lemma flags_strip r :
  let f := flags_of (r_directives r) in let f' := flags_of (r_directives (strip_rule r)) in
  fl_no_skip_ws f' = fl_no_skip_ws f /\ fl_export f' = fl_export f /\ fl_string f' = fl_string f /\
  fl_position f' = fl_position f /\ fl_left_recursive f' = fl_left_recursive f /\ fl_memoize f' = false.
Proof.
  cbn. repeat split; try (apply has_dir_strip; reflexivity).
  unfold has_dir. induction (r_directives r) as [|d ds IH]; [reflexivity|]. destruct d; cbn; auto.
Qed.

Lemma checks_strip r : checks_of (r_directives (strip_rule r)) = checks_of (r_directives r).
Proof. cbn. induction (r_directives r) as [|d ds IH]; [reflexivity|]. destruct d; cbn; rewrite ?IH; reflexivity. Qed.

Lemma grule_name_strip x : grule_name (strip_grule x) = grule_name x.
Proof. destruct x; reflexivity. Qed.

Lemma find_grule_strip g n : find_grule (strip g) n = option_map strip_grule (find_grule g n).
Proof.
  induction g as [|x g IH]; [reflexivity|]. cbn. rewrite grule_name_strip.
  destruct (name_eqb (grule_name x) n); [reflexivity|exact IH].
Qed.

Lemma find_rule_strip g n : find_rule (strip g) n = option_map strip_rule (find_rule g n).
Proof.
  induction g as [|x g IH]; [reflexivity|]. destruct x as [r|c|e]; cbn; [|exact IH|exact IH].
  destruct (name_eqb (r_name r) n); [reflexivity|exact IH].
Qed.

Lemma get_fields_strip c g : forall F e, get_fields c F (strip g) e = get_fields c F g e.
Proof.
  induction F as [|F IH]; intro e; [reflexivity|]. cbn [get_fields].
  destruct e; try reflexivity; try (rewrite IH; reflexivity).
  - assert (K : forall l first all, gf_choice c (get_fields c F (strip g)) l first all = gf_choice c (get_fields c F g) l first all).
    { induction l as [|a l IHl]; intros; cbn; [reflexivity|]. rewrite IH. destruct (get_fields c F g a); auto. }
    apply K.
  - assert (K : forall l all, gf_seq c (get_fields c F (strip g)) l all = gf_seq c (get_fields c F g) l all).
    { induction l as [|a l IHl]; intros; cbn; [reflexivity|]. rewrite IH. destruct (get_fields c F g a); auto. }
    apply K.
  - rewrite find_rule_strip. destruct (find_rule g rule); cbn; [apply IH|reflexivity].
Qed.

Lemma grammar_size_strip g : grammar_size (strip g) = grammar_size g.
Proof. unfold grammar_size. induction g as [|x g IH]; [reflexivity|]. cbn [strip map fold_right]. fold (strip g). rewrite IH. destruct x; reflexivity. Qed.

Lemma find_grule_in g n r : find_grule g n = Some (GRule r) -> In (GRule r) g /\ r_name r = n.
Proof.
  induction g as [|x g IH]; intro H; [discriminate|]. cbn in H.
  destruct (name_eqb (grule_name x) n) eqn:E.
  - injection H as ->. split; [left; reflexivity|]. apply name_eqb_eq in E. exact E.
  - destruct (IH H) as [A B]. split; [right; exact A|exact B].
Qed.

(* ---- states that differ in the farthest error only ------------------------------ *)
Definition Rst (a b : pstate) : Prop := rest a = rest b /\ off a = off b.

Lemma Rst_refl a : Rst a a. Proof. split; reflexivity. Qed.
Lemma Rst_sym a b : Rst a b -> Rst b a. Proof. intros [A B]. split; auto. Qed.
Lemma Rst_trans a b c : Rst a b -> Rst b c -> Rst a c. Proof. intros [A B] [C D]. split; congruence. Qed.

Lemma Rst_record cfg a b e e' : Rst a b -> Rst (record_error cfg a e) (record_error cfg b e').
Proof.
  intros [A B]. unfold record_error.
  destruct (far a) as [fa|]; destruct (far b) as [fb|];
    repeat match goal with |- context [if ?c then _ else _] => destruct c end; split; cbn; auto.
Qed.

Lemma Rst_record_l cfg a e : Rst (record_error cfg a e) a.
Proof.
  unfold record_error. destruct (far a) as [fa|];
    repeat match goal with |- context [if ?c then _ else _] => destruct c end; split; reflexivity.
Qed.

Definition tw {A} (r1 r2 : tres A) : Prop :=
  match r1, r2 with
  | TOk v1 s1, TOk v2 s2 => v1 = v2 /\ Rst s1 s2
  | TErr _, TErr _ => True
  | TPanic, TPanic => True
  | TSplit, TSplit => True
  | _, _ => False
  end.

Lemma adv_then_tw {A} a b n (v : A) : Rst a b -> tw (adv_then a n v) (adv_then b n v).
Proof.
  intros [E1 E2]. unfold adv_then, advance. rewrite E1, E2.
  destruct (Nat.ltb (length (rest b)) n); [triv|].
  destruct (is_boundary (rest b) n); [|triv]. split; [reflexivity|split; reflexivity].
Qed.

Section Terms.
Variable scfg : state_cfg.
Variable tcfg : term_cfg.

Ltac tw_tac :=
  repeat match goal with
         | |- tw (adv_then _ _ _) (adv_then _ _ _) => apply adv_then_tw; split; congruence
         | |- tw (TErr _) (TErr _) => triv
         | |- tw TPanic TPanic => triv
         | |- tw (match ?x with _ => _ end) (match ?x with _ => _ end) => destruct x eqn:?
         | |- tw (if ?x then _ else _) (if ?x then _ else _) => destruct x eqn:?
         end.

Lemma tw_char a b : Rst a b -> tw (parse_char scfg a) (parse_char scfg b).
Proof. intros [E1 E2]. unfold parse_char. rewrite E1. tw_tac. Qed.

Lemma tw_ws_loop bs : forall o f1 f2, tw (ws_loop bs o f1) (ws_loop bs o f2).
Proof.
  induction bs as [|x bs IH]; intros o f1 f2; cbn [ws_loop].
  - split; [reflexivity|split; reflexivity].
  - destruct (is_ascii_ws x); [|split; [reflexivity|split; reflexivity]].
    unfold advance. cbn [rest off far].
    destruct (Nat.ltb (length (x :: bs)) 1); [triv|].
    destruct (is_boundary (x :: bs) 1); [apply IH|triv].
Qed.

Lemma tw_ws a b : Rst a b -> tw (parse_Whitespace a) (parse_Whitespace b).
Proof. intros [E1 E2]. unfold parse_Whitespace. rewrite E1, E2. apply tw_ws_loop. Qed.

Lemma tw_lit a b s : Rst a b -> tw (parse_string_literal scfg a s) (parse_string_literal scfg b s).
Proof. intros [E1 E2]. unfold parse_string_literal. rewrite E1. tw_tac. Qed.

Lemma tw_clit a b c : Rst a b -> tw (parse_character_literal scfg tcfg a c) (parse_character_literal scfg tcfg b c).
Proof. intros [E1 E2]. unfold parse_character_literal. rewrite E1. tw_tac. Qed.

Lemma tw_range a b x y : Rst a b -> tw (parse_character_range scfg tcfg a x y) (parse_character_range scfg tcfg b x y).
Proof. intros [E1 E2]. unfold parse_character_range. rewrite E1. tw_tac. Qed.

Lemma tw_ilit a b s : Rst a b -> tw (parse_string_literal_insensitive scfg tcfg a s) (parse_string_literal_insensitive scfg tcfg b s).
Proof. intros [E1 E2]. unfold parse_string_literal_insensitive. rewrite E1. tw_tac. Qed.

Lemma tw_iclit a b c : Rst a b -> tw (parse_character_literal_insensitive scfg tcfg a c) (parse_character_literal_insensitive scfg tcfg b c).
Proof. intros [E1 E2]. unfold parse_character_literal_insensitive. rewrite E1. tw_tac. Qed.

Lemma tw_eoi a b : Rst a b -> tw (parse_end_of_input scfg a) (parse_end_of_input scfg b).
Proof.
  intros [E1 E2]. unfold parse_end_of_input. rewrite E1. destruct (rest b) eqn:Eb; [|triv].
  split; [reflexivity|split; congruence].
Qed.

End Terms.

(* ---- anchoring: every state is a suffix of the one input ------------------------ *)
Section Anch.
Variable input : bytes.
Definition anch (st : pstate) : Prop := rest st = skipn (off st) input.

Lemma skipn_add {A} (l : list A) : forall a b, skipn b (skipn a l) = skipn (a + b) l.
Proof.
  intros a. revert l. induction a as [|a IH]; intros l b; [reflexivity|].
  destruct l as [|x l]; cbn; [destruct b; reflexivity|apply IH].
Qed.

Lemma anch_Rst a b : Rst a b -> anch a -> anch b.
Proof. intros [A B] H. unfold anch in *. congruence. Qed.

Lemma anch_record cfg st e : anch st -> anch (record_error cfg st e).
Proof. intro H. eapply anch_Rst; [apply Rst_sym; apply Rst_record_l|exact H]. Qed.

Lemma anch_advance st n st' : anch st -> advance st n = AOk st' -> anch st'.
Proof.
  unfold anch, advance. intros H E.
  destruct (Nat.ltb (length (rest st)) n); [discriminate|].
  destruct (is_boundary (rest st) n); [|discriminate]. injection E as <-. cbn.
  rewrite H, skipn_add. reflexivity.
Qed.

Lemma anch_adv_then {A} st n (v v' : A) st' : anch st -> adv_then st n v = TOk v' st' -> anch st'.
Proof.
  unfold adv_then. intros H E. destruct (advance st n) as [s| |] eqn:Ea; try discriminate.
  injection E as _ <-. eapply anch_advance; eauto.
Qed.

Lemma anch_ws_loop bs : forall o f v st', bs = skipn o input -> ws_loop bs o f = TOk v st' -> anch st'.
Proof.
  induction bs as [|x bs IH]; intros o f v st' Hb E; cbn [ws_loop] in E.
  - injection E as _ <-. exact Hb.
  - destruct (is_ascii_ws x).
    + destruct (advance {| rest := x :: bs; off := o; far := f |} 1) as [s| |] eqn:Ea; try discriminate.
      apply (IH (o + 1) f v st'); [|exact E].
      assert (An : anch {| rest := x :: bs; off := o; far := f |}) by exact Hb.
      pose proof (anch_advance _ _ _ An Ea) as As.
      unfold advance in Ea. cbn [rest off far] in Ea.
      destruct (Nat.ltb (length (x :: bs)) 1); [discriminate|]. destruct (is_boundary (x :: bs) 1); [|discriminate].
      injection Ea as <-. exact As.
    + injection E as _ <-. exact Hb.
Qed.

Section T.
Variable scfg : state_cfg.
Variable tcfg : term_cfg.

Ltac anch_tac H :=
  repeat match type of H with
         | adv_then _ _ _ = TOk _ _ => eapply anch_adv_then; [|exact H]; assumption
         | TErr _ = TOk _ _ => discriminate H
         | TPanic = TOk _ _ => discriminate H
         | (match ?x with _ => _ end) = _ => destruct x eqn:?
         | (if ?x then _ else _) = _ => destruct x eqn:?
         end.

Lemma anch_char st v st' : anch st -> parse_char scfg st = TOk v st' -> anch st'.
Proof. intros A H. unfold parse_char in H. anch_tac H. Qed.
Lemma anch_ws st v st' : anch st -> parse_Whitespace st = TOk v st' -> anch st'.
Proof. intros A H. unfold parse_Whitespace in H. eapply anch_ws_loop; [exact A|exact H]. Qed.
Lemma anch_lit st s v st' : anch st -> parse_string_literal scfg st s = TOk v st' -> anch st'.
Proof. intros A H. unfold parse_string_literal in H. anch_tac H. Qed.
Lemma anch_clit st c v st' : anch st -> parse_character_literal scfg tcfg st c = TOk v st' -> anch st'.
Proof. intros A H. unfold parse_character_literal in H. anch_tac H. Qed.
Lemma anch_range st x y v st' : anch st -> parse_character_range scfg tcfg st x y = TOk v st' -> anch st'.
Proof. intros A H. unfold parse_character_range in H. anch_tac H. Qed.
Lemma anch_ilit st s v st' : anch st -> parse_string_literal_insensitive scfg tcfg st s = TOk v st' -> anch st'.
Proof. intros A H. unfold parse_string_literal_insensitive in H. anch_tac H. Qed.
Lemma anch_iclit st c v st' : anch st -> parse_character_literal_insensitive scfg tcfg st c = TOk v st' -> anch st'.
Proof. intros A H. unfold parse_character_literal_insensitive in H. anch_tac H. Qed.
Lemma anch_eoi st v st' : anch st -> parse_end_of_input scfg st = TOk v st' -> anch st'.
Proof. intros A H. unfold parse_end_of_input in H. destruct (rest st); [|discriminate]. injection H as _ <-. exact A. Qed.
End T.
End Anch.

(* ---- the two runs --------------------------------------------------------------- *)
Section Main.
Variable ustate : Type.
Variable scfg : state_cfg.
Variable tcfg : term_cfg.
Variable fcfg : fields_cfg.
Variable rcfg : rule_cfg.
Variable hk : hooks ustate.
Variable g : grammar.
Variable input : bytes.
Hypothesis NoLR : forall r, In (GRule r) g -> fl_left_recursive (flags_of (r_directives r)) = false.
Hypothesis Pcheck : forall f v u u', fst (h_check hk f v u) = fst (h_check hk f v u').
Hypothesis Pext : forall f bs u u', fst (h_extern hk f bs u) = fst (h_extern hk f bs u').

Notation glb := (glob ustate).
Notation RunA := (run ustate scfg tcfg fcfg rcfg hk g).
Notation RunB := (run ustate scfg tcfg fcfg rcfg hk (strip g)).
Notation an := (anch input).

Definition wres {A} (r1 r2 : mres A) : Prop :=
  match r1 with
  | MFuel => True
  | MOk v1 s1 => match r2 with MOk v2 s2 => v1 = v2 /\ Rst s1 s2 | MFuel => True | _ => False end
  | MErr _ => match r2 with MErr _ => True | MFuel => True | _ => False end
  | MPanic p1 => match r2 with MPanic p2 => p1 = p2 | MFuel => True | _ => False end
  end.

Lemma wres_fuel_r {A} (r : mres A) : wres r MFuel.
Proof. destruct r; triv. Qed.

Definition okanch {A} (r : mres A) : Prop := match r with MOk _ s => an s | _ => True end.

Definition sound (nm : name) (k : nat) (c : cached) : Prop :=
  okanch (of_cached c) /\
  forall m st2 gl2, off st2 = k -> an st2 -> wres (of_cached c) (fst (ev_rule (RunB m) nm st2 gl2)).

Definition CS (gl : glb) : Prop :=
  forall nm k c, cache_get nm k (g_cache gl) = Some c -> sound nm k c.

Lemma CS_same gl gl' : g_cache gl' = g_cache gl -> CS gl -> CS gl'.
Proof. intros E H nm k c Hc. rewrite E in Hc. auto. Qed.

Lemma CS_put gl nm k c : CS gl -> sound nm k c -> CS (cache_put ustate nm k c gl).
Proof.
  intros H S nm' k' c' Hc. cbn in Hc.
  destruct (name_eqb nm' nm && Nat.eqb k' k) eqn:E.
  - injection Hc as <-. apply andb_true_iff in E. destruct E as [E1 E2].
    apply name_eqb_eq in E1. apply Nat.eqb_eq in E2. subst. exact S.
  - auto.
Qed.

Definition U {A} (x : R ustate A) : Prop := CS (snd x) /\ okanch (fst x).

Definition Uev (ev : evals ustate) : Prop :=
  (forall ctx e st gl, an st -> CS gl -> U (ev_expr ev ctx e st gl)) /\
  (forall n st gl, an st -> CS gl -> U (ev_rule ev n st gl)) /\
  (forall ctx b plus st it acc gl, an st -> CS gl -> U (ev_loop ev ctx b plus st it acc gl)).

Definition Wev (evA evB : evals ustate) : Prop :=
  (forall ctx e st1 gl1 st2 gl2, Rst st1 st2 -> an st1 -> CS gl1 ->
     wres (fst (ev_expr evA ctx e st1 gl1)) (fst (ev_expr evB ctx e st2 gl2))) /\
  (forall n st1 gl1 st2 gl2, Rst st1 st2 -> an st1 -> CS gl1 ->
     wres (fst (ev_rule evA n st1 gl1)) (fst (ev_rule evB n st2 gl2))) /\
  (forall ctx b plus st1 gl1 st2 gl2 it acc, Rst st1 st2 -> an st1 -> CS gl1 ->
     wres (fst (ev_loop evA ctx b plus st1 it acc gl1)) (fst (ev_loop evB ctx b plus st2 it acc gl2))).

(* B's helper functions are A's: the field descriptors do not look at directives *)
Lemma filt_strip ctx e : filt fcfg (strip g) ctx e = filt fcfg g ctx e.
Proof. unfold filt, filtered_fields, gf_fuel. rewrite grammar_size_strip, get_fields_strip. reflexivity. Qed.

Lemma own_fields_strip e : own_fields fcfg (strip g) e = own_fields fcfg g e.
Proof. unfold own_fields, gf_fuel. rewrite grammar_size_strip, get_fields_strip. reflexivity. Qed.


(* ---- the relational walk over the templates ------------------------------------ *)
Section Walk.
Variable evA evB : evals ustate.
Hypothesis HU : Uev evA.
Hypothesis HW : Wev evA evB.

Let HUe := proj1 HU.
Let HUr := proj1 (proj2 HU).
Let HUl := proj2 (proj2 HU).
Let HWe := proj1 HW.
Let HWr := proj1 (proj2 HW).
Let HWl := proj2 (proj2 HW).

Notation stepA_e := (expr_step ustate scfg tcfg fcfg rcfg g evA).
Notation stepB_e := (expr_step ustate scfg tcfg fcfg rcfg (strip g) evB).

(* a sub-call pair: split into the (at most) four live combinations *)
Ltac pair_e ctx e st1 gl1 st2 gl2 HR HA HC :=
  let Hw := fresh "Hw" in let Hu := fresh "Hu" in
  pose proof (HWe ctx e st1 gl1 st2 gl2 HR HA HC) as Hw;
  pose proof (HUe ctx e st1 gl1 HA HC) as Hu;
  destruct (ev_expr evA ctx e st1 gl1) as [[?v1 ?s1|?e1|?p1|] ?ga];
  destruct (ev_expr evB ctx e st2 gl2) as [[?v2 ?s2|?e2|?p2|] ?gb];
  cbn [fst snd wres] in Hw, Hu |- *; try contradiction; try triv; try apply wres_fuel_r; try (match goal with |- @eq panic_site _ _ => assumption end).

Ltac pair_r n st1 gl1 st2 gl2 HR HA HC :=
  let Hw := fresh "Hw" in let Hu := fresh "Hu" in
  pose proof (HWr n st1 gl1 st2 gl2 HR HA HC) as Hw;
  pose proof (HUr n st1 gl1 HA HC) as Hu;
  destruct (ev_rule evA n st1 gl1) as [[?v1 ?s1|?e1|?p1|] ?ga];
  destruct (ev_rule evB n st2 gl2) as [[?v2 ?s2|?e2|?p2|] ?gb];
  cbn [fst snd wres] in Hw, Hu |- *; try contradiction; try triv; try apply wres_fuel_r; try (match goal with |- @eq panic_site _ _ => assumption end).

Lemma W_lift {X Y} (f : X -> Y) sp1 sp2 st1 st2 (r1 r2 : tres X) gl1 gl2 :
  tw r1 r2 -> wres (fst (lift_t ustate f sp1 st1 r1 gl1)) (fst (lift_t ustate f sp2 st2 r2 gl2)).
Proof.
  destruct r1, r2; cbn; intro H; try contradiction; try triv; try reflexivity.
  destruct H as [-> H]. split; [reflexivity|exact H].
Qed.

Lemma W_with_ws {X} ctx st1 gl1 st2 gl2 (k1 k2 : pstate -> glb -> R ustate X) :
  Rst st1 st2 -> an st1 -> CS gl1 ->
  (forall s1 g1 s2 g2, Rst s1 s2 -> an s1 -> CS g1 -> wres (fst (k1 s1 g1)) (fst (k2 s2 g2))) ->
  wres (fst (with_ws ustate evA ctx st1 gl1 k1)) (fst (with_ws ustate evB ctx st2 gl2 k2)).
Proof.
  intros HR HA HC Hk. unfold with_ws. destruct (c_skip ctx); [|apply Hk; auto].
  pair_r n_Whitespace st1 gl1 st2 gl2 HR HA HC.
  - destruct Hw as [_ Hs]. destruct Hu as [Hc Ha]. apply Hk; auto.
Qed.

Lemma W_no_fields {X} (a b : R ustate X) :
  wres (fst a) (fst b) -> wres (fst (no_fields ustate a)) (fst (no_fields ustate b)).
Proof.
  destruct a as [[v1 s1|e1|p1|] ga], b as [[v2 s2|e2|p2|] gb]; cbn; intro H; try contradiction; try triv; try assumption.
  destruct H as [_ H]. split; [reflexivity|exact H].
Qed.

Lemma W_run_lit m st1 gl1 st2 gl2 : Rst st1 st2 ->
  wres (fst (run_lit ustate scfg tcfg m st1 gl1)) (fst (run_lit ustate scfg tcfg m st2 gl2)).
Proof.
  intro HR. destruct m; cbn [run_lit]; apply W_lift;
    [apply tw_clit|apply tw_lit|apply tw_iclit|apply tw_ilit]; exact HR.
Qed.

Lemma W_choice_loop ctx fds alts : forall c1 gl1 c2 gl2, Rst c1 c2 -> an c1 -> CS gl1 ->
  wres (fst (choice_loop ustate scfg fcfg g evA ctx fds alts c1 gl1))
       (fst (choice_loop ustate scfg fcfg (strip g) evB ctx fds alts c2 gl2)).
Proof.
  induction alts as [|a alts IH]; intros c1 gl1 c2 gl2 HR HA HC; cbn [choice_loop]; [triv|].
  rewrite own_fields_strip.
  pair_e ctx a c1 gl1 c2 gl2 HR HA HC.
  - destruct Hw as [-> Hs]. destruct (own_fields fcfg g a) as [inner|]; [|triv].
    destruct (convert_arm fds inner v2); [split; [reflexivity|exact Hs]|triv].
  - destruct Hu as [Hc _]. apply IH; [apply Rst_record; exact HR|apply anch_record; exact HA|exact Hc].
Qed.

Lemma W_seq_loop ctx fds parts : forall st1 gl1 st2 gl2 acc, Rst st1 st2 -> an st1 -> CS gl1 ->
  wres (fst (seq_loop ustate evA ctx fds parts st1 acc gl1)) (fst (seq_loop ustate evB ctx fds parts st2 acc gl2)).
Proof.
  induction parts as [|p ps IH]; intros st1 gl1 st2 gl2 acc HR HA HC; cbn [seq_loop].
  - destruct (order_as fds acc); [split; [reflexivity|exact HR]|triv].
  - pair_e ctx p st1 gl1 st2 gl2 HR HA HC.
    + destruct Hw as [-> Hs]. destruct Hu as [Hc Ha]. destruct (seq_merge_vals acc v2); [apply IH; auto|triv].
Qed.

Theorem W_expr ctx e st1 gl1 st2 gl2 : Rst st1 st2 -> an st1 -> CS gl1 ->
  wres (fst (stepA_e ctx e st1 gl1)) (fst (stepB_e ctx e st2 gl2)).
Proof.
  intros HR HA HC. destruct e; cbn [expr_step].
  - (* EChoice *)
    destruct alts as [|a [|a2 rest]]; [triv|apply HWe; auto|].
    rewrite filt_strip. destruct (filt fcfg g ctx (EChoice (a :: a2 :: rest))); [|triv].
    apply W_choice_loop; auto.
  - (* ESeq *)
    destruct parts as [|p [|p2 rest]]; [split; [reflexivity|exact HR]|apply HWe; auto|].
    rewrite filt_strip. destruct (filt fcfg g ctx (ESeq (p :: p2 :: rest))); [|triv].
    apply W_seq_loop; auto.
  - (* EGroup *) apply HWe; auto.
  - (* EOptional *)
    rewrite filt_strip. pair_e ctx e st1 gl1 st2 gl2 HR HA HC.
    + exact Hw.
    + destruct (filt fcfg g ctx e) as [fds|]; [|triv].
      destruct (defaults fds); [split; [reflexivity|apply Rst_record; exact HR]|triv].
  - (* EClosure *)
    rewrite filt_strip. destruct (filt fcfg g ctx e) as [fds|]; [|triv]. apply HWl; auto.
  - (* ENeg *)
    pair_e ctx e st1 gl1 st2 gl2 HR HA HC. split; [reflexivity|exact HR].
  - (* EPos *)
    pair_e ctx e st1 gl1 st2 gl2 HR HA HC. split; [reflexivity|exact HR].
  - (* ERange *)
    destruct (compile_range from to); try triv.
    apply W_no_fields. apply W_with_ws; try assumption. intros s1 g1 s2 g2 R1 A1 C1. apply W_lift. apply tw_range. exact R1.
  - (* ELit *)
    destruct (compile_lit (insens_guard rcfg) insensitive body); try triv.
    apply W_no_fields. apply W_with_ws; try assumption. intros s1 g1 s2 g2 R1 A1 C1. apply W_run_lit. exact R1.
  - (* EEoi *)
    apply W_no_fields. apply W_with_ws; try assumption. intros s1 g1 s2 g2 R1 A1 C1. apply W_lift. apply tw_eoi. exact R1.
  - (* EInclude *)
    rewrite find_rule_strip. destruct (find_rule g rule) as [r|]; cbn [option_map]; [apply HWe; auto|triv].
  - (* EField *)
    assert (Hr : wres (fst (with_ws ustate evA ctx st1 gl1 (fun st gl => ev_rule evA typ st gl)))
                      (fst (with_ws ustate evB ctx st2 gl2 (fun st gl => ev_rule evB typ st gl)))).
    { apply W_with_ws; try assumption. intros s1 g1 s2 g2 R1 A1 C1. apply HWr; assumption. }
    destruct (fname_of fname) as [n|]; [|apply W_no_fields; exact Hr].
    destruct (with_ws ustate evA ctx st1 gl1 (fun st gl => ev_rule evA typ st gl)) as [[v1 s1|e1|p1|] ga];
      destruct (with_ws ustate evB ctx st2 gl2 (fun st gl => ev_rule evB typ st gl)) as [[v2 s2|e2|p2|] gb];
      cbn [fst wres] in Hr |- *; try contradiction; try triv; try (match goal with |- @eq panic_site _ _ => assumption end).
    + destruct Hr as [-> Hs]. destruct (postprocess (c_fields ctx) n typ v2); [split; [reflexivity|exact Hs]|triv].
    + destruct (postprocess (c_fields ctx) n typ v1); triv.
Qed.

Theorem W_loop ctx b plus st1 gl1 st2 gl2 it acc : Rst st1 st2 -> an st1 -> CS gl1 ->
  wres (fst (loop_step ustate scfg evA ctx b plus st1 it acc gl1)) (fst (loop_step ustate scfg evB ctx b plus st2 it acc gl2)).
Proof.
  intros HR HA HC. unfold loop_step. pair_e ctx b st1 gl1 st2 gl2 HR HA HC.
  - destruct Hw as [-> Hs]. destruct Hu as [Hc Ha]. destruct (extend_all acc v2); [apply HWl; auto|triv].
  - destruct (plus && Nat.eqb it 0); [triv|]. split; [reflexivity|apply Rst_record; exact HR].
Qed.

Lemma W_run_checks cs v : forall st1 gl1 st2 gl2, Rst st1 st2 ->
  wres (fst (run_checks ustate scfg hk cs v st1 gl1)) (fst (run_checks ustate scfg hk cs v st2 gl2)).
Proof.
  induction cs as [|f cs IH]; intros st1 gl1 st2 gl2 HR; cbn [run_checks]; [split; [reflexivity|exact HR]|].
  pose proof (Pcheck f v (g_user gl1) (g_user gl2)) as P.
  destruct (h_check hk f v (g_user gl1)) as [ok1 u1]. destruct (h_check hk f v (g_user gl2)) as [ok2 u2].
  cbn in P. subst ok2. destruct ok1; [apply IH; exact HR|triv].
Qed.

Theorem W_rule_body r st1 gl1 st2 gl2 : Rst st1 st2 -> an st1 -> CS gl1 ->
  wres (fst (rule_body ustate scfg fcfg hk g evA r st1 gl1))
       (fst (rule_body ustate scfg fcfg hk (strip g) evB (strip_rule r) st2 gl2)).
Proof.
  intros HR HA HC. unfold rule_body.
  destruct (flags_strip r) as [F1 [F2 [F3 [F4 [F5 F6]]]]]. cbn zeta in *.
  rewrite F1, F3, F4, checks_strip. unfold gf_fuel. rewrite grammar_size_strip, get_fields_strip.
  cbn [strip_rule r_def r_name].
  destruct (get_fields fcfg (S (grammar_size g)) g (r_def r)) as [rf| |]; try triv.
  set (ctx := {| c_skip := negb (fl_no_skip_ws (flags_of (r_directives r))); c_fields := rf |}).
  pair_e ctx (r_def r) st1 gl1 st2 gl2 HR HA HC.
  - destruct Hw as [-> Hs]. destruct HR as [R1 R2]. destruct Hs as [S1 S2].
    assert (E1 : slice_until st1 s1 = slice_until st2 s2) by (unfold slice_until; rewrite R1, R2, S2; reflexivity).
    assert (E2 : range_until st1 s1 = range_until st2 s2) by (unfold range_until; rewrite R2, S2; reflexivity).
    rewrite E1, E2.
    match goal with |- wres (fst (match ?o with _ => _ end)) _ => destruct o as [v|] end; [|triv].
    apply W_run_checks. split; assumption.
Qed.

Lemma W_char_parts nm ps : forall st1 gl1 st2 gl2, Rst st1 st2 -> an st1 -> CS gl1 ->
  wres (fst (char_parts ustate scfg tcfg evA nm ps st1 gl1)) (fst (char_parts ustate scfg tcfg evB nm ps st2 gl2)).
Proof.
  induction ps as [|pt ps IH]; intros st1 gl1 st2 gl2 HR HA HC; cbn [char_parts]; [triv|].
  destruct pt as [i|a b|n].
  - destruct (decode_item i) as [c| |]; try triv.
    pose proof (tw_clit scfg tcfg st1 st2 c HR) as T.
    destruct (parse_character_literal scfg tcfg st1 c), (parse_character_literal scfg tcfg st2 c); cbn in T; try contradiction; try triv.
    + destruct T as [-> T]. split; [reflexivity|exact T].
    + apply IH; auto.
  - destruct (compile_range a b) as [x y| |]; try triv.
    pose proof (tw_range scfg tcfg st1 st2 x y HR) as T.
    destruct (parse_character_range scfg tcfg st1 x y), (parse_character_range scfg tcfg st2 x y); cbn in T; try contradiction; try triv.
    + destruct T as [-> T]. split; [reflexivity|exact T].
    + apply IH; auto.
  - pair_r n st1 gl1 st2 gl2 HR HA HC.
    + exact Hw.
    + destruct Hu as [Hc _]. apply IH; auto.
Qed.

Lemma W_char_rule r st1 gl1 st2 gl2 : Rst st1 st2 -> an st1 -> CS gl1 ->
  wres (fst (char_rule_body ustate scfg tcfg hk evA r st1 gl1)) (fst (char_rule_body ustate scfg tcfg hk evB r st2 gl2)).
Proof.
  intros HR HA HC. unfold char_rule_body.
  pose proof (W_char_parts (cr_name r) (cr_choices r) st1 gl1 st2 gl2 HR HA HC) as Hp.
  destruct (cr_checks r) as [|c cs]; [exact Hp|].
  destruct HR as [R1 R2]. rewrite <- R1.
  destruct (rest st1) as [|x xs] eqn:Er; [triv|].
  destruct (decode1 (x :: xs)) as [[ch k]|]; [|triv].
  destruct (char_checks ustate hk (cr_name r) (c :: cs) ch); [exact Hp|triv].
Qed.

Lemma W_extern r st1 gl1 st2 gl2 : Rst st1 st2 ->
  wres (fst (extern_rule_body ustate scfg hk r st1 gl1)) (fst (extern_rule_body ustate scfg hk r st2 gl2)).
Proof.
  intros [R1 R2]. unfold extern_rule_body. rewrite <- R1.
  pose proof (Pext (er_function r) (rest st1) (g_user gl1) (g_user gl2)) as P.
  destruct (h_extern hk (er_function r) (rest st1) (g_user gl1)) as [res1 u1].
  destruct (h_extern hk (er_function r) (rest st1) (g_user gl2)) as [res2 u2].
  cbn in P. subst res2. destruct res1 as [[v k]|msg]; [|triv].
  unfold advance_safe, advance. rewrite <- R1, <- R2.
  destruct (Nat.ltb (length (rest st1)) k); [triv|].
  destruct (is_boundary (rest st1) k); [|triv].
  split; [reflexivity|split; reflexivity].
Qed.

End Walk.

(* ---- the unary walk: cache soundness and anchoring are preserved by A --------- *)
Section UWalk.
Variable evA : evals ustate.
Hypothesis HU : Uev evA.
Hypothesis HWall : forall m, Wev evA (RunB m).

Let HUe := proj1 HU.
Let HUr := proj1 (proj2 HU).
Let HUl := proj2 (proj2 HU).

Ltac sub_e ctx e st gl HA HC :=
  let Hu := fresh "Hu" in
  pose proof (HUe ctx e st gl HA HC) as Hu;
  destruct (ev_expr evA ctx e st gl) as [[?v1 ?s1|?e1|?p1|] ?ga]; cbn [fst snd U okanch] in Hu |- *.

Lemma U_ret {X} (v : X) st gl : an st -> CS gl -> U (MOk v st, gl).
Proof. intros; split; assumption. Qed.
Lemma U_err {X} e gl : CS gl -> @U X (MErr e, gl).
Proof. intros; split; [assumption|triv]. Qed.
Lemma U_panic {X} p gl : CS gl -> @U X (MPanic p, gl).
Proof. intros; split; [assumption|triv]. Qed.
Lemma U_fuel {X} gl : CS gl -> @U X (MFuel, gl).
Proof. intros; split; [assumption|triv]. Qed.
Lemma U_fail {X} st sp gl : CS gl -> @U X (fail_at ustate scfg st sp gl).
Proof. intro H. unfold fail_at. apply U_err. eapply CS_same; [|exact H]. reflexivity. Qed.

Lemma U_lift {X Y} (f : X -> Y) sp st (r : tres X) gl :
  CS gl -> (forall v s, r = TOk v s -> an s) -> U (lift_t ustate f sp st r gl).
Proof.
  intros HC Ha. destruct r; cbn [lift_t].
  - apply U_ret; [eapply Ha; reflexivity|exact HC].
  - apply U_err. eapply CS_same; [|exact HC]. reflexivity.
  - apply U_panic. exact HC.
  - apply U_panic. exact HC.
Qed.

Lemma U_with_ws {X} ctx st gl (k : pstate -> glb -> R ustate X) :
  an st -> CS gl -> (forall s g0, an s -> CS g0 -> U (k s g0)) -> U (with_ws ustate evA ctx st gl k).
Proof.
  intros HA HC Hk. unfold with_ws. destruct (c_skip ctx); [|apply Hk; auto].
  pose proof (HUr n_Whitespace st gl HA HC) as Hu.
  destruct (ev_rule evA n_Whitespace st gl) as [[v s|e|p|] ga]; cbn [fst snd U okanch] in Hu |- *.
  - destruct Hu. apply Hk; auto.
  - exact Hu.
  - exact Hu.
  - exact Hu.
Qed.

Lemma U_no_fields {X} (a : R ustate X) : U a -> U (no_fields ustate a).
Proof. destruct a as [[v s|e|p|] ga]; cbn; auto. Qed.

Lemma U_run_lit m st gl : an st -> CS gl -> U (run_lit ustate scfg tcfg m st gl).
Proof.
  intros HA HC. destruct m; cbn [run_lit]; apply U_lift; try exact HC; intros v0 s0 E.
  - eapply anch_clit; eauto.
  - eapply anch_lit; eauto.
  - eapply anch_iclit; eauto.
  - eapply anch_ilit; eauto.
Qed.

Lemma U_choice_loop ctx fds alts : forall cst gl, an cst -> CS gl ->
  U (choice_loop ustate scfg fcfg g evA ctx fds alts cst gl).
Proof.
  induction alts as [|a alts IH]; intros cst gl HA HC; cbn [choice_loop]; [apply U_err; exact HC|].
  sub_e ctx a cst gl HA HC.
  - destruct Hu as [Hc Ha]. destruct (own_fields fcfg g a) as [inner|]; [|apply U_panic; exact Hc].
    destruct (convert_arm fds inner v1); [apply U_ret; assumption|apply U_panic; exact Hc].
  - destruct Hu as [Hc _]. apply IH; [apply anch_record; exact HA|exact Hc].
  - exact Hu.
  - exact Hu.
Qed.

Lemma U_seq_loop ctx fds parts : forall st acc gl, an st -> CS gl ->
  U (seq_loop ustate evA ctx fds parts st acc gl).
Proof.
  induction parts as [|p ps IH]; intros st acc gl HA HC; cbn [seq_loop].
  - destruct (order_as fds acc); [apply U_ret; assumption|apply U_panic; exact HC].
  - sub_e ctx p st gl HA HC; try exact Hu.
    destruct Hu as [Hc Ha]. destruct (seq_merge_vals acc v1); [apply IH; assumption|apply U_panic; exact Hc].
Qed.

Theorem U_expr ctx e st gl : an st -> CS gl -> U (expr_step ustate scfg tcfg fcfg rcfg g evA ctx e st gl).
Proof.
  intros HA HC. destruct e; cbn [expr_step].
  - destruct alts as [|a [|a2 rest]]; [apply U_panic; exact HC|apply HUe; assumption|].
    destruct (filt fcfg g ctx (EChoice (a :: a2 :: rest))); [apply U_choice_loop; assumption|apply U_panic; exact HC].
  - destruct parts as [|p [|p2 rest]]; [apply U_ret; assumption|apply HUe; assumption|].
    destruct (filt fcfg g ctx (ESeq (p :: p2 :: rest))); [apply U_seq_loop; assumption|apply U_panic; exact HC].
  - apply HUe; assumption.
  - sub_e ctx e st gl HA HC; try exact Hu.
    destruct Hu as [Hc _]. destruct (filt fcfg g ctx e) as [fds|]; [|apply U_panic; exact Hc].
    destruct (defaults fds); [apply U_ret; [apply anch_record; exact HA|exact Hc]|apply U_panic; exact Hc].
  - destruct (filt fcfg g ctx e) as [fds|]; [apply HUl; assumption|apply U_panic; exact HC].
  - sub_e ctx e st gl HA HC; try exact Hu.
    + destruct Hu as [Hc _]. apply U_fail. exact Hc.
    + destruct Hu as [Hc _]. apply U_ret; assumption.
  - sub_e ctx e st gl HA HC; try exact Hu.
    destruct Hu as [Hc _]. apply U_ret; assumption.
  - destruct (compile_range from to); try (apply U_panic; exact HC).
    apply U_no_fields. apply U_with_ws; try assumption. intros s g0 A0 C0. apply U_lift; [exact C0|].
    intros v s' E. eapply anch_range; eauto.
  - destruct (compile_lit (insens_guard rcfg) insensitive body); try (apply U_panic; exact HC).
    apply U_no_fields. apply U_with_ws; try assumption. intros s g0 A0 C0. apply U_run_lit; assumption.
  - apply U_no_fields. apply U_with_ws; try assumption. intros s g0 A0 C0. apply U_lift; [exact C0|].
    intros v s' E. eapply anch_eoi; eauto.
  - destruct (find_rule g rule) as [r|]; [apply HUe; assumption|apply U_panic; exact HC].
  - assert (Hr : U (with_ws ustate evA ctx st gl (fun st gl => ev_rule evA typ st gl))).
    { apply U_with_ws; try assumption. intros s g0 A0 C0. apply HUr; assumption. }
    destruct (fname_of fname) as [n|]; [|apply U_no_fields; exact Hr].
    destruct (with_ws ustate evA ctx st gl (fun st gl => ev_rule evA typ st gl)) as [[v s|e|p|] ga]; try exact Hr.
    destruct Hr as [Hc Ha]. cbn [fst snd] in *.
    destruct (postprocess (c_fields ctx) n typ v); [apply U_ret; assumption|apply U_panic; exact Hc].
Qed.

Theorem U_loop ctx b plus st it acc gl : an st -> CS gl -> U (loop_step ustate scfg evA ctx b plus st it acc gl).
Proof.
  intros HA HC. unfold loop_step. sub_e ctx b st gl HA HC; try exact Hu.
  - destruct Hu as [Hc Ha]. destruct (extend_all acc v1); [apply HUl; assumption|apply U_panic; exact Hc].
  - destruct Hu as [Hc _]. destruct (plus && Nat.eqb it 0); [apply U_err; exact Hc|].
    apply U_ret; [apply anch_record; exact HA|exact Hc].
Qed.

Lemma U_run_checks cs v : forall st gl, an st -> CS gl -> U (run_checks ustate scfg hk cs v st gl).
Proof.
  induction cs as [|f cs IH]; intros st gl HA HC; cbn [run_checks]; [apply U_ret; assumption|].
  destruct (h_check hk f v (g_user gl)) as [ok u].
  assert (C1 : CS (set_user ustate u gl)) by (eapply CS_same; [|exact HC]; reflexivity).
  destruct ok; [apply IH; assumption|apply U_fail; exact C1].
Qed.

Theorem U_rule_body r st gl : an st -> CS gl -> U (rule_body ustate scfg fcfg hk g evA r st gl).
Proof.
  intros HA HC. unfold rule_body.
  destruct (get_fields fcfg (gf_fuel g) g (r_def r)) as [rf| |]; try (apply U_panic; exact HC).
  set (ctx := {| c_skip := negb (fl_no_skip_ws (flags_of (r_directives r))); c_fields := rf |}).
  sub_e ctx (r_def r) st gl HA HC; try exact Hu.
  destruct Hu as [Hc Ha].
  match goal with |- U (match ?o with _ => _ end) => destruct o as [v|] end; [|apply U_panic; exact Hc].
  apply U_run_checks; assumption.
Qed.

Lemma U_char_parts nm ps : forall st gl, an st -> CS gl -> U (char_parts ustate scfg tcfg evA nm ps st gl).
Proof.
  induction ps as [|pt ps IH]; intros st gl HA HC; cbn [char_parts]; [apply U_fail; exact HC|].
  destruct pt as [i|a b|n].
  - destruct (decode_item i) as [c| |]; try (apply U_panic; exact HC).
    destruct (parse_character_literal scfg tcfg st c) eqn:E; try (apply U_panic; exact HC).
    + apply U_ret; [eapply anch_clit; eauto|exact HC].
    + apply IH; assumption.
  - destruct (compile_range a b) as [x y| |]; try (apply U_panic; exact HC).
    destruct (parse_character_range scfg tcfg st x y) eqn:E; try (apply U_panic; exact HC).
    + apply U_ret; [eapply anch_range; eauto|exact HC].
    + apply IH; assumption.
  - pose proof (HUr n st gl HA HC) as Hu.
    destruct (ev_rule evA n st gl) as [[v s|e|p|] ga]; cbn [fst snd U okanch] in Hu |- *; try exact Hu.
    destruct Hu as [Hc _]. apply IH; assumption.
Qed.

Lemma U_char_rule r st gl : an st -> CS gl -> U (char_rule_body ustate scfg tcfg hk evA r st gl).
Proof.
  intros HA HC. unfold char_rule_body.
  pose proof (U_char_parts (cr_name r) (cr_choices r) st gl HA HC) as Hp.
  destruct (cr_checks r) as [|c cs]; [exact Hp|].
  destruct (rest st) as [|x xs]; [apply U_fail; exact HC|].
  destruct (decode1 (x :: xs)) as [[ch k]|]; [|apply U_panic; exact HC].
  destruct (char_checks ustate hk (cr_name r) (c :: cs) ch); [exact Hp|apply U_fail; exact HC].
Qed.

Lemma U_extern r st gl : an st -> CS gl -> U (extern_rule_body ustate scfg hk r st gl).
Proof.
  intros HA HC. unfold extern_rule_body.
  destruct (h_extern hk (er_function r) (rest st) (g_user gl)) as [res u].
  assert (C1 : CS (set_user ustate u gl)) by (eapply CS_same; [|exact HC]; reflexivity).
  destruct res as [[v k]|msg]; [|apply U_fail; exact C1].
  unfold advance_safe. destruct (advance st k) as [s| |] eqn:E; try (apply U_panic; exact C1).
  apply U_ret; [eapply anch_advance; eauto|exact C1].
Qed.

(* B's rule call on the stripped rule is its rule body *)
Lemma B_rule_step m n r st2 gl2 :
  find_grule g n = Some (GRule r) ->
  fst (ev_rule (RunB (S m)) n st2 gl2) =
  fst (rule_body ustate scfg fcfg hk (strip g) (RunB m) (strip_rule r) st2
         (trace ustate (TStart (r_name r) (off st2)) gl2)).
Proof.
  intro Hf. cbn [run step ev_rule]. unfold rule_step. rewrite find_grule_strip, Hf. cbn [option_map strip_grule].
  unfold memo_wrap. destruct (flags_strip r) as [_ [_ [_ [_ [F5 F6]]]]]. cbn zeta in *.
  rewrite F5, F6. destruct (find_grule_in g n r Hf) as [Hin _]. rewrite (NoLR r Hin).
  cbn [strip_rule r_name].
  destruct (rule_body ustate scfg fcfg hk (strip g) (RunB m) (strip_rule r) st2 _) as [[? ?|?|?|] ?]; reflexivity.
Qed.

(* what A stores is what B computes *)
Lemma store_sound n r st gl :
  find_grule g n = Some (GRule r) -> an st -> CS gl ->
  let x := rule_body ustate scfg fcfg hk g evA r st gl in
  forall c, of_cached c = fst x -> sound (r_name r) (off st) c.
Proof.
  intros Hf HA HC x c Ec. destruct (find_grule_in g n r Hf) as [Hin Hn].
  split.
  - rewrite Ec. exact (proj2 (U_rule_body r st gl HA HC)).
  - intros m st2 gl2 Ho Ha2. destruct m as [|m]; [apply wres_fuel_r|].
    rewrite Hn. rewrite (B_rule_step m n r st2 gl2 Hf). rewrite Ec.
    apply (W_rule_body evA (RunB m) HU (HWall m)); [|exact HA|exact HC].
    split; [|symmetry; exact Ho]. unfold anch in HA, Ha2. rewrite HA, Ha2, Ho. reflexivity.
Qed.

Theorem U_rule n st gl : an st -> CS gl -> U (rule_step ustate scfg tcfg fcfg rcfg hk g evA n st gl).
Proof.
  intros HA HC. unfold rule_step.
  destruct (find_grule g n) as [[r|r|r]|] eqn:Hf.
  - destruct (find_grule_in g n r Hf) as [Hin Hn].
    set (gl1 := trace ustate (TStart (r_name r) (off st)) gl).
    assert (C1 : CS gl1) by (eapply CS_same; [|exact HC]; reflexivity).
    assert (Hm : U (memo_wrap ustate scfg fcfg rcfg hk g evA r st gl1)).
    { unfold memo_wrap. rewrite (NoLR r Hin).
      destruct (fl_memoize (flags_of (r_directives r))); [|apply U_rule_body; assumption].
      destruct (cache_get (r_name r) (off st) (g_cache gl1)) as [c|] eqn:Ec.
      - split; [eapply CS_same; [|exact C1]; reflexivity|]. exact (proj1 (C1 _ _ _ Ec)).
      - set (gl2 := log_eval ustate (r_name r, off st) gl1).
        assert (C2 : CS gl2) by (eapply CS_same; [|exact C1]; reflexivity).
        pose proof (U_rule_body r st gl2 HA C2) as Hb.
        pose proof (store_sound n r st gl2 Hf HA C2) as Hs. cbn zeta in Hs.
        destruct (rule_body ustate scfg fcfg hk g evA r st gl2) as [[v s|e|p|] gb]; cbn [fst snd] in *.
        + destruct Hb as [Hc Ha]. split; [|exact Ha]. apply CS_put; [exact Hc|]. apply (Hs (COk v s)). reflexivity.
        + destruct Hb as [Hc _]. destruct (memo_closed rcfg); [|apply U_err; exact Hc].
          split; [|triv]. apply CS_put; [exact Hc|]. apply (Hs (CErr e)). reflexivity.
        + exact Hb.
        + exact Hb. }
    destruct (memo_wrap ustate scfg fcfg rcfg hk g evA r st gl1) as [[v s|e|p|] gb]; cbn [fst snd U okanch] in Hm |- *.
    + destruct Hm as [Hc Ha]. apply U_ret; [exact Ha|]. eapply CS_same; [|exact Hc]. reflexivity.
    + destruct Hm as [Hc _]. apply U_err. eapply CS_same; [|exact Hc]. reflexivity.
    + exact Hm.
    + exact Hm.
  - apply U_char_rule; assumption.
  - apply U_extern; assumption.
  - destruct (name_eqb n n_char).
    + apply U_lift; [exact HC|]. intros v s E. eapply anch_char; eauto.
    + destruct (name_eqb n n_Whitespace); [|apply U_panic; exact HC].
      apply U_lift; [exact HC|]. intros v s E. eapply anch_ws; eauto.
Qed.

(* ---- the relational rule call --------------------------------------------------- *)
Theorem W_rule m n st1 gl1 st2 gl2 : Rst st1 st2 -> an st1 -> CS gl1 ->
  wres (fst (rule_step ustate scfg tcfg fcfg rcfg hk g evA n st1 gl1)) (fst (ev_rule (RunB (S m)) n st2 gl2)).
Proof.
  intros HR HA HC.
  destruct (find_grule g n) as [[r|r|r]|] eqn:Hf.
  - rewrite (B_rule_step m n r st2 gl2 Hf). unfold rule_step. rewrite Hf.
    destruct (find_grule_in g n r Hf) as [Hin Hn].
    set (gl1' := trace ustate (TStart (r_name r) (off st1)) gl1).
    assert (C1 : CS gl1') by (eapply CS_same; [|exact HC]; reflexivity).
    assert (Hm : wres (fst (memo_wrap ustate scfg fcfg rcfg hk g evA r st1 gl1'))
                      (fst (rule_body ustate scfg fcfg hk (strip g) (RunB m) (strip_rule r) st2
                              (trace ustate (TStart (r_name r) (off st2)) gl2)))).
    { unfold memo_wrap. rewrite (NoLR r Hin).
      destruct (fl_memoize (flags_of (r_directives r))); [|apply (W_rule_body evA (RunB m) HU (HWall m)); assumption].
      destruct (cache_get (r_name r) (off st1) (g_cache gl1')) as [c|] eqn:Ec.
      - cbn [fst]. destruct (C1 _ _ _ Ec) as [_ Hs].
        rewrite <- (B_rule_step m n r st2 gl2 Hf). rewrite <- Hn. apply Hs; [symmetry; apply HR|].
        eapply anch_Rst; eauto.
      - set (gl2' := log_eval ustate (r_name r, off st1) gl1').
        assert (C2 : CS gl2') by (eapply CS_same; [|exact C1]; reflexivity).
        pose proof (W_rule_body evA (RunB m) HU (HWall m) r st1 gl2' st2
                      (trace ustate (TStart (r_name r) (off st2)) gl2) HR HA C2) as Hb.
        destruct (rule_body ustate scfg fcfg hk g evA r st1 gl2') as [[v s|e|p|] gb]; cbn [fst] in *; try exact Hb.
        destruct (memo_closed rcfg); exact Hb. }
    destruct (memo_wrap ustate scfg fcfg rcfg hk g evA r st1 gl1') as [[v s|e|p|] gb]; exact Hm.
  - cbn [run step ev_rule]. unfold rule_step. rewrite find_grule_strip, Hf. cbn [option_map strip_grule].
    apply (W_char_rule evA (RunB m) HU (HWall m)); assumption.
  - cbn [run step ev_rule]. unfold rule_step. rewrite find_grule_strip, Hf. cbn [option_map strip_grule].
    apply W_extern. exact HR.
  - cbn [run step ev_rule]. unfold rule_step. rewrite find_grule_strip, Hf. cbn [option_map].
    destruct (name_eqb n n_char); [apply W_lift; apply tw_char; exact HR|].
    destruct (name_eqb n n_Whitespace); [apply W_lift; apply tw_ws; exact HR|triv].
Qed.

End UWalk.

(* ---- putting the levels together ------------------------------------------------ *)
Theorem memo_levels : forall n, Uev (RunA n) /\ forall m, Wev (RunA n) (RunB m).
Proof.
  induction n as [|n [IHU IHW]].
  - split.
    + split; [|split]; intros; cbn; apply U_fuel; assumption.
    + intro m. split; [|split]; intros; cbn; triv.
  - assert (HU' : Uev (RunA (S n))).
    { split; [|split]; intros; cbn [run step ev_expr ev_rule ev_loop].
      - apply U_expr; assumption.
      - apply U_rule; assumption.
      - apply U_loop; assumption. }
    split; [exact HU'|].
    intros [|m].
    + split; [|split]; intros; cbn; apply wres_fuel_r.
    + split; [|split]; intros; cbn [run step ev_expr ev_rule ev_loop].
      * apply (W_expr (RunA n) (RunB m) IHU (IHW m)); assumption.
      * apply (W_rule (RunA n) IHU IHW m); assumption.
      * apply (W_loop (RunA n) (RunB m) IHU (IHW m)); assumption.
Qed.

Lemma CS_init u : CS (init_glob ustate u).
Proof. intros nm k c H. discriminate. Qed.

(* the whole parse: same acceptance, same tree, same end offset *)
Theorem memoize_transparent n m rule_name u u' :
  wres (fst (m_parse ustate scfg tcfg fcfg rcfg hk g n rule_name input u))
       (fst (m_parse ustate scfg tcfg fcfg rcfg hk (strip g) m rule_name input u')).
Proof.
  unfold m_parse. destruct (memo_levels n) as [_ HW]. destruct (HW m) as [_ [Hr _]].
  apply Hr; [apply Rst_refl|reflexivity|apply CS_init].
Qed.

End Main.
