(* Termination of the model of the generated parser itself - with @memoize and @leftrec rules -
   for grammars that are well-formed in the sense of C07's quantifier: left recursion only through
   @leftrec rules.  The certificate is the one of WellFormed.v, except that a reference to a
   @leftrec rule needs no rank (it either finds its seed in the cache, or opens the rule at this
   position, which can happen only once per rule and position).  Measure: remaining input, number
   of @leftrec rules not yet open at the current position, rank, size of the expression; the
   growth loop itself is bounded by the strict progress test (state.rs is_further_than).
   Along with termination the walk establishes what it needs about results: offsets only grow, a
   success without progress was predicted by the nullable analysis, cache entries are never lost. *)
From Coq Require Import Lia.
From PegV Require Import Utf8 Utf8Facts State Terminals Syntax Fields FieldsFacts Literals Model FuelMono
  WellFormed Termination Once.

(* ---- eventually constant in the recursion bound ------------------------------------------ *)
Section Conv.
Variable ustate : Type.
Notation R := (R ustate).

Definition convM {A} (h : nat -> R A) (x : R A) : Prop :=
  nofuel ustate x /\ exists F, forall f, F <= f -> h f = x.

Lemma convM_const {A} (x : R A) : nofuel ustate x -> convM (fun _ => x) x.
Proof. intro H. split; [exact H|]. exists 0. auto. Qed.

Lemma convM_ext {A} (h h' : nat -> R A) x : (forall f, h f = h' f) -> convM h x -> convM h' x.
Proof. intros E [N [F H]]. split; [exact N|]. exists F. intros f Hf. rewrite <- E. auto. Qed.

Lemma convM_bind {A B} (h : nat -> R A) (K : R A -> nat -> R B) x y :
  convM h x -> convM (K x) y -> convM (fun f => K (h f) f) y.
Proof.
  intros [N1 [F1 H1]] [N2 [F2 H2]]. split; [exact N2|]. exists (Nat.max F1 F2).
  intros f Hf. rewrite H1 by lia. apply H2. lia.
Qed.

Lemma convM_shift {A} (h : nat -> R A) x (d : R A) :
  convM h x -> convM (fun f => match f with O => d | S f' => h f' end) x.
Proof.
  intros [N [F H]]. split; [exact N|]. exists (S F). intros f Hf. destruct f; [lia|]. apply H. lia.
Qed.
End Conv.

Section LR.
Variable ustate : Type.
Variable scfg : state_cfg.
Variable tcfg : term_cfg.
Variable fcfg : fields_cfg.
Variable rcfg : rule_cfg.
Variable hk : hooks ustate.
Variable g : grammar.
Variable nul : name -> bool.
Variable rk : runit -> nat.
Variable LEN : nat.

Notation glb := (glob ustate).
Notation Run := (run ustate scfg tcfg fcfg rcfg hk g).
Notation enull := (enull nul).
Notation R := (R ustate).
Notation convM := (convM ustate).
Notation bnd := (bnd LEN).

(* ---- the certificate: as WellFormed.wf_check, a reference to a @leftrec rule needs no rank ---- *)
Definition is_lr (n : name) : bool :=
  match find_grule g n with
  | Some (GRule r) => fl_left_recursive (flags_of (r_directives r))
  | _ => false
  end.

Definition bok (k : option nat) (u : runit) : bool :=
  match u with
  | UCall n => is_lr n || bound_ok rk k u
  | UInc _ _ => bound_ok rk k u
  end.

Definition wsok (k : option nat) (s : bool) : bool := if s then bok k (UCall n_Whitespace) else true.

Fixpoint wfeL (k : option nat) (s : bool) (e : expr) : bool :=
  match e with
  | EChoice alts => forallb (wfeL k s) alts
  | ESeq parts =>
    (fix go (k : option nat) (ps : list expr) : bool :=
       match ps with
       | [] => true
       | p :: r => wfeL k s p && go (if enull p then k else None) r
       end) k parts
  | EGroup b => wfeL k s b
  | EOptional b => wfeL k s b
  | EClosure b _ => wfeL k s b && negb (enull b)
  | ENeg b => wfeL k s b
  | EPos b => wfeL k s b
  | ERange _ _ => wsok k s
  | ELit _ _ => wsok k s
  | EEoi => wsok k s
  | EInclude n => bok k (UInc s n)
  | EField _ _ typ => wsok k s && bok k (UCall typ)
  end.

Fixpoint wfseqL (k : option nat) (s : bool) (ps : list expr) : bool :=
  match ps with
  | [] => true
  | p :: r => wfeL k s p && wfseqL (if enull p then k else None) s r
  end.

Definition rank_ok_lr (gr : grule) : bool :=
  match gr with
  | GRule r =>
    let fl := flags_of (r_directives r) in
    wfeL (Some (rk (UCall (r_name r)))) (negb (fl_no_skip_ws fl)) (r_def r)
    && wfeL (Some (rk (UInc true (r_name r)))) true (r_def r)
    && wfeL (Some (rk (UInc false (r_name r)))) false (r_def r)
  | GChar r =>
    forallb (fun p => match p with
                      | CPIdent m => bok (Some (rk (UCall (cr_name r)))) (UCall m)
                      | _ => true
                      end) (cr_choices r)
  | GExtern _ => true
  end.

Definition wf_check_lr : bool :=
  nul n_Whitespace && forallb (nul_ok_rule nul) g && forallb rank_ok_lr g.

Hypothesis WF : wf_check_lr = true.
Hypothesis Hstrict : further_gt scfg = true.
Hypothesis Hlrc : leftrec_closed rcfg = true.

Lemma wfl_ws : nul n_Whitespace = true.
Proof. unfold wf_check_lr in WF. apply andb_prop in WF. destruct WF as [W _]. apply andb_prop in W. tauto. Qed.

Lemma wfl_nul gr : In gr g -> nul_ok_rule nul gr = true.
Proof.
  unfold wf_check_lr in WF. apply andb_prop in WF. destruct WF as [W _]. apply andb_prop in W. destruct W as [_ W].
  rewrite forallb_forall in W. auto.
Qed.

Lemma wfl_rank gr : In gr g -> rank_ok_lr gr = true.
Proof. unfold wf_check_lr in WF. apply andb_prop in WF. destruct WF as [_ W]. rewrite forallb_forall in W. auto. Qed.

Lemma wfeL_seq_eq k s parts : wfeL k s (ESeq parts) = wfseqL k s parts.
Proof. cbn [wfeL]. revert k. induction parts as [|p ps IH]; intro k; cbn [wfseqL]; [reflexivity|]. rewrite IH. reflexivity. Qed.

Lemma bok_none u : bok None u = true.
Proof. destruct u; cbn; [apply Bool.orb_true_r|reflexivity]. Qed.

Lemma wsok_weaken k s : wsok k s = true -> wsok None s = true.
Proof. destruct s; cbn; intros; [apply Bool.orb_true_r|reflexivity]. Qed.

Lemma wfeL_weaken : forall e k s, wfeL k s e = true -> wfeL None s e = true.
Proof.
  induction e using expr_ind'; intros k s W.
  - cbn [wfeL] in *. rewrite forallb_forall in *. intros x Hx. rewrite Forall_forall in H. eapply H; eauto.
  - rewrite wfeL_seq_eq in *. revert k W. induction H as [|p ps Hp Hps IH]; intros k W; [reflexivity|].
    cbn [wfseqL] in *. apply andb_prop in W. destruct W as [W1 W2]. rewrite (Hp _ _ W1). cbn.
    destruct (enull p); eapply IH; eauto.
  - cbn [wfeL] in *. eauto.
  - cbn [wfeL] in *. eauto.
  - cbn [wfeL] in *. apply andb_prop in W. destruct W as [W1 W2]. rewrite (IHe _ _ W1), W2. reflexivity.
  - cbn [wfeL] in *. eauto.
  - cbn [wfeL] in *. eauto.
  - cbn [wfeL] in *. eapply wsok_weaken; eauto.
  - cbn [wfeL] in *. eapply wsok_weaken; eauto.
  - cbn [wfeL] in *. eapply wsok_weaken; eauto.
  - reflexivity.
  - cbn [wfeL] in *. apply andb_prop in W. destruct W as [W1 _]. rewrite (wsok_weaken _ _ W1). cbn. apply Bool.orb_true_r.
Qed.

Lemma wfseqL_weaken ps : forall k s, wfseqL k s ps = true -> wfseqL None s ps = true.
Proof. intros k s W. rewrite <- wfeL_seq_eq in *. eapply wfeL_weaken; eauto. Qed.


(* ---- what the walk maintains --------------------------------------------------------------- *)
Definition mono (gl gl' : glb) : Prop :=
  forall n o, cache_get n o (g_cache gl) <> None -> cache_get n o (g_cache gl') <> None.

Definition CInv (gl : glb) : Prop :=
  forall n o v s, cache_get n o (g_cache gl) = Some (COk v s) -> o <= off s /\ (off s = o -> nul n = true) /\ bnd s.

Definition postS {A} (nl : bool) (st : pstate) (gl : glb) (x : R A) : Prop :=
  match x with
  | (MOk _ st', gl') => off st <= off st' /\ (off st' = off st -> nl = true) /\ mono gl gl' /\ CInv gl' /\ bnd st'
  | (MErr _, gl') => mono gl gl' /\ CInv gl'
  | (MPanic _, _) => True
  | (MFuel, _) => False
  end.

(* the evaluation returns from some bound on, with a result as above *)
Definition TT {A} (nl : bool) (st : pstate) (gl : glb) (h : nat -> R A) : Prop :=
  exists x, convM h x /\ postS nl st gl x.

Lemma mono_refl gl : mono gl gl.
Proof. intros n o H. exact H. Qed.

Lemma mono_trans a b c : mono a b -> mono b c -> mono a c.
Proof. intros H1 H2 n o H. auto. Qed.

Lemma mono_same gl gl' : g_cache gl' = g_cache gl -> mono gl gl'.
Proof. intros E n o H. rewrite E. exact H. Qed.

Lemma CInv_same gl gl' : g_cache gl' = g_cache gl -> CInv gl -> CInv gl'.
Proof. intros E C n o v s H. rewrite E in H. eauto. Qed.

Lemma postS_nofuel {A} nl st gl (x : R A) : postS nl st gl x -> nofuel ustate x.
Proof. destruct x as [[v s|e|p|] gl']; cbn; auto. Qed.

Lemma TT_ret {A} nl st gl (x : R A) : postS nl st gl x -> TT nl st gl (fun _ => x).
Proof. intro P. exists x. split; [apply convM_const; eapply postS_nofuel; eauto|exact P]. Qed.

Lemma TT_ext {A} nl st gl (h h' : nat -> R A) : (forall f, h f = h' f) -> TT nl st gl h -> TT nl st gl h'.
Proof. intros E [x [C P]]. exists x. split; [eapply convM_ext; eauto|exact P]. Qed.

Lemma TT_bind {A B} (h1 : nat -> R A) (K : R A -> nat -> R B) nl1 nl st gl :
  TT nl1 st gl h1 -> (forall x1, postS nl1 st gl x1 -> TT nl st gl (K x1)) -> TT nl st gl (fun f => K (h1 f) f).
Proof.
  intros [x1 [C1 P1]] H. destruct (H x1 P1) as [y [C2 P2]]. exists y. split; [|exact P2].
  eapply convM_bind; eauto.
Qed.

(* results of an evaluation from a later state and a grown cache, seen from the earlier ones *)
Lemma postS_later {A} nl nl' st st1 gl gl1 (x : R A) :
  off st <= off st1 -> mono gl gl1 -> (off st1 = off st -> nl' = true -> nl = true) ->
  postS nl' st1 gl1 x -> postS nl st gl x.
Proof.
  intros Lp M N P. destruct x as [[v st'|e|p|] gl']; cbn in *; auto.
  - destruct P as (P1 & P2 & P3 & P4 & P5). split; [lia|]. split; [|split; [eapply mono_trans; eauto|split; assumption]].
    intro E. apply N; [lia|]. apply P2. lia.
  - destruct P as (P3 & P4). split; [eapply mono_trans; eauto|exact P4].
Qed.

Lemma TT_later {A} nl nl' st st1 gl gl1 (h : nat -> R A) :
  off st <= off st1 -> mono gl gl1 -> (off st1 = off st -> nl' = true -> nl = true) ->
  TT nl' st1 gl1 h -> TT nl st gl h.
Proof. intros Lp M N [x [C P]]. exists x. split; [exact C|eapply postS_later; eauto]. Qed.

Lemma TT_weaken {A} nl nl' st gl (h : nat -> R A) : (nl = true -> nl' = true) -> TT nl st gl h -> TT nl' st gl h.
Proof. intros N H. eapply TT_later; [apply Nat.le_refl|apply mono_refl| |exact H]. auto. Qed.

(* ---- how many @leftrec rules are not yet open at a position ------------------------------------ *)
Definition lrnames : list name := filter is_lr (map grule_name g).
Definition open_b (n : name) (p : nat) (gl : glb) : bool :=
  match cache_get n p (g_cache gl) with Some _ => true | None => false end.
Definition ocount (gl : glb) (p : nat) : nat := length (filter (fun n => negb (open_b n p gl)) lrnames).

Lemma filter_len_le {X} (q q' : X -> bool) l : (forall x, q x = true -> q' x = true) -> length (filter q l) <= length (filter q' l).
Proof.
  intro H. induction l as [|a l IH]; cbn; [lia|]. destruct (q a) eqn:Q.
  - rewrite (H _ Q). cbn. lia.
  - destruct (q' a); cbn; lia.
Qed.

Lemma filter_len_lt {X} (q q' : X -> bool) l a :
  (forall x, q x = true -> q' x = true) -> In a l -> q a = false -> q' a = true ->
  length (filter q l) < length (filter q' l).
Proof.
  intros H Hin Qa Q'a. induction l as [|b l IH]; [destruct Hin|]. cbn. destruct Hin as [->|Hin].
  - rewrite Qa, Q'a. cbn. pose proof (filter_len_le q q' l H). lia.
  - specialize (IH Hin). destruct (q b) eqn:Q; [rewrite (H _ Q); cbn; lia|]. destruct (q' b); cbn; lia.
Qed.

Lemma ocount_mono gl gl' p : mono gl gl' -> ocount gl' p <= ocount gl p.
Proof.
  intro M. unfold ocount. apply filter_len_le. intros n H. unfold open_b in *.
  destruct (cache_get n p (g_cache gl)) eqn:E; [|reflexivity].
  assert (K : cache_get n p (g_cache gl') <> None) by (apply M; congruence).
  destruct (cache_get n p (g_cache gl')); [discriminate|congruence].
Qed.

Lemma is_lr_in n : is_lr n = true -> In n lrnames.
Proof.
  intro H. unfold lrnames. apply filter_In. split; [|exact H]. unfold is_lr in H.
  destruct (find_grule g n) as [gr|] eqn:F; [|discriminate]. destruct (fg_in _ _ _ F) as [I1 I2].
  rewrite <- I2. apply in_map. exact I1.
Qed.

Lemma mono_put n p c gl : mono gl (cache_put ustate n p c gl).
Proof. intros n' o H. cbn. destruct (name_eqb n' n && Nat.eqb o p); [discriminate|exact H]. Qed.

Lemma ocount_put n p c gl :
  is_lr n = true -> cache_get n p (g_cache gl) = None -> ocount (cache_put ustate n p c gl) p < ocount gl p.
Proof.
  intros L Miss. unfold ocount. apply (filter_len_lt _ _ lrnames n).
  - intros x H. unfold open_b in *. cbn in H. destruct (name_eqb x n && Nat.eqb p p); [discriminate|exact H].
  - apply is_lr_in. exact L.
  - unfold open_b. cbn. rewrite name_eqb_refl, Nat.eqb_refl. reflexivity.
  - unfold open_b. rewrite Miss. reflexivity.
Qed.


(* ---- one level of recursion bound ------------------------------------------------------------- *)
Lemma run_S_expr f ctx e st gl : ev_expr (Run (S f)) ctx e st gl = expr_step ustate scfg tcfg fcfg rcfg g (Run f) ctx e st gl.
Proof. reflexivity. Qed.
Lemma run_S_rule f n st gl : ev_rule (Run (S f)) n st gl = rule_step ustate scfg tcfg fcfg rcfg hk g (Run f) n st gl.
Proof. reflexivity. Qed.
Lemma run_S_loop f ctx b plus st it acc gl :
  ev_loop (Run (S f)) ctx b plus st it acc gl = loop_step ustate scfg (Run f) ctx b plus st it acc gl.
Proof. reflexivity. Qed.
Lemma run_S_grow f r st best gl :
  ev_grow (Run (S f)) r st best gl = grow_step ustate scfg fcfg rcfg hk g (Run f) r st best gl.
Proof. reflexivity. Qed.

Lemma TT_step {A} nl st gl (h : nat -> R A) (h' : nat -> R A) :
  (forall f, h (S f) = h' f) -> TT nl st gl h' -> TT nl st gl h.
Proof.
  intros E [x [[N [F H]] P]]. exists x. split; [|exact P]. split; [exact N|]. exists (S F).
  intros f Hf. destruct f; [lia|]. rewrite E. apply H. lia.
Qed.

Definition Good (st : pstate) (gl : glb) : Prop := bnd st /\ CInv gl.
Definition lvl (st : pstate) (gl : glb) : nat * nat := (LEN - off st, ocount gl (off st)).
Definition ltl (a b : nat * nat) : Prop := fst a < fst b \/ (fst a = fst b /\ snd a < snd b).

Record AllAt (st : pstate) (gl : glb) : Prop := {
  a_r : forall n, TT (nul n) st gl (fun f => ev_rule (Run f) n st gl);
  a_e : forall ctx e, wfeL None (c_skip ctx) e = true -> TT (enull e) st gl (fun f => ev_expr (Run f) ctx e st gl);
  a_l : forall ctx b plus it acc, wfeL None (c_skip ctx) b = true -> enull b = false ->
        TT (negb (plus && Nat.eqb it 0)) st gl (fun f => ev_loop (Run f) ctx b plus st it acc gl)
}.

Definition kat (st st1 : pstate) (k : option nat) : option nat := if Nat.eqb (off st1) (off st) then k else None.

Lemma bok_kat st st1 k u : bok k u = true -> bok (kat st st1 k) u = true.
Proof. unfold kat. destruct (Nat.eqb (off st1) (off st)); [auto|intros _; apply bok_none]. Qed.

Lemma wfeL_kat st st1 k s e : wfeL k s e = true -> wfeL (kat st st1 k) s e = true.
Proof. unfold kat. destruct (Nat.eqb (off st1) (off st)); [auto|apply wfeL_weaken]. Qed.

Lemma bnd_le st : bnd st -> off st <= LEN.
Proof. unfold Once.bnd. lia. Qed.

Section Level.
Variable rem oc : nat.
Hypothesis IHlt : forall st gl, Good st gl -> ltl (lvl st gl) (rem, oc) -> AllAt st gl.

Definition at_lvl (st : pstate) (gl : glb) : Prop := lvl st gl = (rem, oc).

(* a later state and a grown cache: the same level (then the same offset), or a smaller one *)
Lemma lvl_later st gl st1 gl1 :
  bnd st -> at_lvl st gl -> off st <= off st1 -> bnd st1 -> mono gl gl1 ->
  (at_lvl st1 gl1 /\ off st1 = off st) \/ ltl (lvl st1 gl1) (rem, oc).
Proof.
  intros B A Lp B1 M. unfold at_lvl, lvl in *. injection A as A1 A2.
  pose proof (bnd_le _ B). pose proof (bnd_le _ B1).
  destruct (Nat.eq_dec (off st1) (off st)) as [E|E].
  - pose proof (ocount_mono gl gl1 (off st) M) as O.
    destruct (Nat.eq_dec (ocount gl1 (off st)) oc) as [E2|E2].
    + left. split; [rewrite E, A1, E2; reflexivity|exact E].
    + right. unfold ltl. cbn. rewrite E. right. split; [lia|lia].
  - right. unfold ltl. cbn. left. lia.
Qed.

Section Core.
Variable k : option nat.
Hypothesis Hk : forall n, bok k (UCall n) = true -> forall st gl, Good st gl -> at_lvl st gl ->
  TT (nul n) st gl (fun f => ev_rule (Run f) n st gl).
Hypothesis Hki : forall s n r, bok k (UInc s n) = true -> find_rule g n = Some r ->
  forall ctx st gl, c_skip ctx = s -> Good st gl -> at_lvl st gl ->
  TT (enull (r_def r)) st gl (fun f => ev_expr (Run f) ctx (r_def r) st gl).

Definition Pcore (e : expr) : Prop :=
  forall ctx st gl, Good st gl -> at_lvl st gl -> wfeL k (c_skip ctx) e = true ->
    TT (enull e) st gl (fun f => ev_expr (Run f) ctx e st gl).

Lemma sub_e e : Pcore e -> forall ctx st gl st1 gl1,
  Good st gl -> at_lvl st gl -> off st <= off st1 -> mono gl gl1 -> Good st1 gl1 ->
  wfeL (kat st st1 k) (c_skip ctx) e = true ->
  TT (enull e) st1 gl1 (fun f => ev_expr (Run f) ctx e st1 gl1).
Proof.
  intros P ctx st gl st1 gl1 [B C] A Lp M [B1 C1] W.
  destruct (lvl_later st gl st1 gl1 B A Lp B1 M) as [[A1 E]|Lt].
  - apply P; [split; assumption|exact A1|]. unfold kat in W. rewrite E, Nat.eqb_refl in W. exact W.
  - apply (a_e _ _ (IHlt st1 gl1 (conj B1 C1) Lt)). eapply wfeL_weaken; eauto.
Qed.

Lemma sub_r n st gl st1 gl1 :
  Good st gl -> at_lvl st gl -> off st <= off st1 -> mono gl gl1 -> Good st1 gl1 ->
  bok (kat st st1 k) (UCall n) = true ->
  TT (nul n) st1 gl1 (fun f => ev_rule (Run f) n st1 gl1).
Proof.
  intros [B C] A Lp M [B1 C1] W.
  destruct (lvl_later st gl st1 gl1 B A Lp B1 M) as [[A1 E]|Lt].
  - apply Hk; [|split; assumption|exact A1]. unfold kat in W. rewrite E, Nat.eqb_refl in W. exact W.
  - apply (a_r _ _ (IHlt st1 gl1 (conj B1 C1) Lt)).
Qed.


(* (st1, gl1) is reached from the anchor (st0, gl0), which is at this level *)
Definition Anch (st0 : pstate) (gl0 : glb) (st1 : pstate) (gl1 : glb) : Prop :=
  Good st0 gl0 /\ at_lvl st0 gl0 /\ off st0 <= off st1 /\ mono gl0 gl1 /\ Good st1 gl1.

Lemma Anch_self st gl : Good st gl -> at_lvl st gl -> Anch st gl st gl.
Proof. intros G A. split; [exact G|]. split; [exact A|]. split; [lia|]. split; [apply mono_refl|exact G]. Qed.

Lemma Anch_step st0 gl0 st1 gl1 st2 gl2 :
  Anch st0 gl0 st1 gl1 -> off st1 <= off st2 -> mono gl1 gl2 -> Good st2 gl2 -> Anch st0 gl0 st2 gl2.
Proof.
  intros (G0 & A0 & L1 & M1 & G1) L2 M2 G2. split; [exact G0|]. split; [exact A0|]. split; [lia|].
  split; [eapply mono_trans; eauto|exact G2].
Qed.

Lemma off_record st e : off (record_error scfg st e) = off st.
Proof. unfold record_error. destruct (far st); [destruct (if rec_le scfg then _ else _)|]; reflexivity. Qed.

Lemma bnd_record st e : bnd st -> bnd (record_error scfg st e).
Proof. unfold Once.bnd, record_error. destruct (far st); [destruct (if rec_le scfg then _ else _)|]; auto. Qed.

Lemma kat_record st0 st e : kat st0 (record_error scfg st e) k = kat st0 st k.
Proof. unfold kat. rewrite off_record. reflexivity. Qed.

Lemma lift_TT {X Y} (f : X -> Y) sp nl st gl (r : tres X) :
  Good st gl -> tadv st (negb nl) r -> TT nl st gl (fun _ => lift_t ustate f sp st r gl).
Proof.
  intros [B C] T. apply TT_ret. destruct r as [v st'|e| |]; cbn in *; auto.
  - destruct T as [T1 T2]. split; [destruct nl; cbn in T1; lia|]. split; [|split; [apply mono_refl|split; [exact C|auto]]].
    intro E. destruct nl; [reflexivity|cbn in T1; lia].
  - split; [apply mono_same; reflexivity|eapply CInv_same; [|exact C]; reflexivity].
Qed.

Lemma fail_TT {X} nl st st0 gl sp : CInv gl -> TT (A:=X) nl st gl (fun _ => fail_at ustate scfg st0 sp gl).
Proof. intro C. apply TT_ret. cbn. split; [apply mono_same; reflexivity|eapply CInv_same; [|exact C]; reflexivity]. Qed.

Lemma no_fields_TT {X} nl st gl (h : nat -> R X) : TT nl st gl h -> TT nl st gl (fun f => no_fields ustate (h f)).
Proof.
  intro H. apply (TT_bind h (fun x _ => no_fields ustate x) nl nl st gl H).
  intros x P. apply TT_ret. destruct x as [[v st'|e|p|] gl']; cbn in *; auto.
Qed.

Lemma with_ws_TT {X} nl ctx st0 gl0 st gl (kont : evals ustate -> pstate -> glb -> R X) :
  Anch st0 gl0 st gl -> wsok (kat st0 st k) (c_skip ctx) = true ->
  (forall st1 gl1, Anch st0 gl0 st1 gl1 -> off st <= off st1 -> mono gl gl1 ->
      TT nl st1 gl1 (fun f => kont (Run f) st1 gl1)) ->
  TT nl st gl (fun f => with_ws ustate (Run f) ctx st gl (kont (Run f))).
Proof.
  intros A W H. unfold with_ws. unfold wsok in W. destruct (c_skip ctx).
  - destruct A as (G0 & A0 & L1 & M1 & G1).
    apply (TT_bind (fun f => ev_rule (Run f) n_Whitespace st gl)
             (fun x f => match x with
                         | (MOk _ st', gl') => kont (Run f) st' gl'
                         | (MErr e, gl') => (MErr e, gl')
                         | (MPanic p, gl') => (MPanic p, gl')
                         | (MFuel, gl') => (MFuel, gl')
                         end) (nul n_Whitespace) nl st gl).
    + exact (sub_r n_Whitespace st0 gl0 st gl G0 A0 L1 M1 G1 W).
    + intros x P. destruct x as [[v st1|e|p|] gl1]; cbn in P; try (apply TT_ret; exact P).
      destruct P as (P1 & _ & P3 & P4 & P5).
      eapply TT_later; [exact P1|exact P3| |apply H; auto]; [auto|].
      split; [exact G0|]. split; [exact A0|]. split; [lia|]. split; [eapply mono_trans; eauto|split; assumption].
  - apply H; [exact A|lia|apply mono_refl].
Qed.


Lemma choice_loop_TT ctx fds alts st0 gl0 : Forall Pcore alts -> forall cst gl,
  Anch st0 gl0 cst gl -> forallb (wfeL (kat st0 cst k) (c_skip ctx)) alts = true ->
  TT (existsb enull alts) cst gl (fun f => choice_loop ustate scfg fcfg g (Run f) ctx fds alts cst gl).
Proof.
  induction 1 as [|a alts Pa _ IH]; intros cst gl A W; cbn [choice_loop].
  - apply TT_ret. destruct A as (_ & _ & _ & _ & [_ C]). cbn. split; [apply mono_refl|exact C].
  - cbn [forallb] in W. apply andb_prop in W. destruct W as [W1 W2].
    pose proof A as (G0 & A0 & L1 & M1 & G1).
    apply (TT_bind (fun f => ev_expr (Run f) ctx a cst gl)
             (fun x f => match x with
                         | (MOk fs st', gl') =>
                           match own_fields fcfg g a with
                           | None => (MPanic PanicUncompilable, gl')
                           | Some inner =>
                             match convert_arm fds inner fs with
                             | Some out => (MOk out st', gl')
                             | None => (MPanic PanicShape, gl')
                             end
                           end
                         | (MErr e, gl') => choice_loop ustate scfg fcfg g (Run f) ctx fds alts (record_error scfg cst e) gl'
                         | (MPanic p, gl') => (MPanic p, gl')
                         | (MFuel, gl') => (MFuel, gl')
                         end) (enull a) (existsb enull (a :: alts)) cst gl).
    + exact (sub_e a Pa ctx st0 gl0 cst gl G0 A0 L1 M1 G1 W1).
    + intros x P. destruct x as [[fs st'|e|p|] gl']; cbn in P; try (apply TT_ret; exact P).
      * destruct P as (P1 & P2 & P3 & P4 & P5). apply TT_ret.
        destruct (own_fields fcfg g a) as [inner|]; [|exact I]. destruct (convert_arm fds inner fs); [|exact I].
        cbn. split; [exact P1|]. split; [|split; [exact P3|split; assumption]]. intro E. rewrite (P2 E). reflexivity.
      * destruct P as (P3 & P4). destruct G1 as [B1 C1].
        eapply TT_later; [| exact P3| |apply IH].
        -- rewrite off_record. apply Nat.le_refl.
        -- cbn [existsb]. intros _ Hx. rewrite Hx. apply Bool.orb_true_r.
        -- eapply Anch_step; [exact A|rewrite off_record; apply Nat.le_refl|exact P3|split; [apply bnd_record; exact B1|exact P4]].
        -- rewrite kat_record. exact W2.
Qed.

Lemma seq_loop_TT ctx fds parts st0 gl0 : Forall Pcore parts -> forall st acc gl,
  Anch st0 gl0 st gl -> wfseqL (kat st0 st k) (c_skip ctx) parts = true ->
  TT (forallb enull parts) st gl (fun f => seq_loop ustate (Run f) ctx fds parts st acc gl).
Proof.
  induction 1 as [|p ps Pp _ IH]; intros st acc gl A W; cbn [seq_loop].
  - apply TT_ret. destruct A as (_ & _ & _ & _ & [B C]).
    destruct (order_as fds acc); [|exact I]. cbn. split; [lia|]. split; [reflexivity|]. split; [apply mono_refl|split; assumption].
  - cbn [wfseqL] in W. apply andb_prop in W. destruct W as [W1 W2].
    pose proof A as (G0 & A0 & L1 & M1 & G1).
    apply (TT_bind (fun f => ev_expr (Run f) ctx p st gl)
             (fun x f => match x with
                         | (MOk fs st', gl') =>
                           match seq_merge_vals acc fs with
                           | Some acc' => seq_loop ustate (Run f) ctx fds ps st' acc' gl'
                           | None => (MPanic PanicShape, gl')
                           end
                         | (MErr e, gl') => (MErr e, gl')
                         | (MPanic p', gl') => (MPanic p', gl')
                         | (MFuel, gl') => (MFuel, gl')
                         end) (enull p) (forallb enull (p :: ps)) st gl).
    + exact (sub_e p Pp ctx st0 gl0 st gl G0 A0 L1 M1 G1 W1).
    + intros x P. destruct x as [[fs st'|e|pp|] gl']; cbn in P; try (apply TT_ret; exact P).
      destruct P as (P1 & P2 & P3 & P4 & P5).
      destruct (seq_merge_vals acc fs) as [acc'|]; [|apply TT_ret; exact I].
      eapply TT_later; [exact P1|exact P3| |apply IH].
      * cbn [forallb]. intros E Hx. rewrite (P2 E). exact Hx.
      * eapply Anch_step; [exact A|exact P1|exact P3|split; assumption].
      * unfold kat in *. destruct (Nat.eqb (off st') (off st0)) eqn:Q; [|eapply wfseqL_weaken; eauto].
        apply Nat.eqb_eq in Q. assert (E1 : off st = off st0) by lia. assert (E2 : off st' = off st) by lia.
        rewrite E1, Nat.eqb_refl in W2. rewrite (P2 E2) in W2. exact W2.
Qed.

Lemma run_lit_TT m nl st gl :
  Good st gl -> (nl = false -> term_nonnull (fst (Spec.lit_term m)) = true) ->
  TT nl st gl (fun _ => run_lit ustate scfg tcfg m st gl).
Proof.
  intros G N. destruct m; cbn [run_lit]; apply lift_TT; try exact G.
  - destruct nl; cbn; [apply tadv_weaken|]; apply off_clit.
  - destruct nl; cbn; [apply (off_lit scfg st (encode_str s))|].
    apply (off_lit scfg st (encode_str s)). apply encode_str_nonnil.
    specialize (N eq_refl). cbn in N. destruct s; [discriminate|discriminate].
  - destruct nl; cbn; [apply tadv_weaken|]; apply off_iclit.
  - destruct nl; cbn; [apply (off_ilit scfg tcfg st (encode_str s))|].
    apply (off_ilit scfg tcfg st (encode_str s)). apply encode_str_nonnil.
    specialize (N eq_refl). cbn in N. destruct s; [discriminate|discriminate].
Qed.


Lemma loop_TT b : Pcore b -> forall ctx plus st it acc gl,
  Good st gl -> at_lvl st gl -> wfeL k (c_skip ctx) b = true -> enull b = false ->
  TT (negb (plus && Nat.eqb it 0)) st gl (fun f => ev_loop (Run f) ctx b plus st it acc gl).
Proof.
  intros P ctx plus st it acc gl G A W N.
  apply (TT_step _ _ _ _ (fun f => loop_step ustate scfg (Run f) ctx b plus st it acc gl)); [intro f; apply run_S_loop|].
  unfold loop_step.
  apply (TT_bind (fun f => ev_expr (Run f) ctx b st gl)
           (fun x f => match x with
                       | (MOk fs st', gl') =>
                         match extend_all acc fs with
                         | Some acc' => ev_loop (Run f) ctx b plus st' (S it) acc' gl'
                         | None => (MPanic PanicShape, gl')
                         end
                       | (MErr e, gl') =>
                         let st2 := record_error scfg st e in
                         if plus && Nat.eqb it 0 then (MErr (report_farthest_error st2), gl') else (MOk acc st2, gl')
                       | (MPanic p, gl') => (MPanic p, gl')
                       | (MFuel, gl') => (MFuel, gl')
                       end) (enull b) _ st gl).
  - apply P; assumption.
  - intros x Px. destruct x as [[fs st'|e|p|] gl']; cbn in Px; try (apply TT_ret; exact Px).
    + destruct Px as (P1 & P2 & P3 & P4 & P5).
      assert (Lt : off st < off st').
      { destruct (Nat.eq_dec (off st') (off st)) as [E|E]; [|lia]. rewrite (P2 E) in N. discriminate. }
      destruct (extend_all acc fs) as [acc'|]; [|apply TT_ret; exact I].
      destruct G as [B C].
      destruct (lvl_later st gl st' gl' B A P1 P5 P3) as [[_ E]|L2]; [lia|].
      eapply TT_later; [exact P1|exact P3| |apply (a_l _ _ (IHlt st' gl' (conj P5 P4) L2)); [eapply wfeL_weaken; eauto|exact N]].
      intros E. lia.
    + destruct Px as (P3 & P4). destruct G as [B C]. apply TT_ret. cbn zeta.
      destruct (plus && Nat.eqb it 0); cbn.
      * split; assumption.
      * rewrite off_record. split; [lia|]. split; [reflexivity|]. split; [exact P3|split; [exact P4|apply bnd_record; exact B]].
Qed.

Theorem core : forall e, Pcore e.
Proof.
  induction e using expr_ind'; intros ctx st gl G A W;
    match goal with
    | |- TT _ _ _ (fun f => ev_expr (Run f) ?c ?e0 ?s0 ?g0) =>
      apply (TT_step _ _ _ _ (fun f => expr_step ustate scfg tcfg fcfg rcfg g (Run f) c e0 s0 g0)); [intro; apply run_S_expr|]
    end;
    cbn [expr_step]; pose proof (Anch_self st gl G A) as AN; pose proof G as [B C].
  - (* EChoice *)
    cbn [wfeL] in W. destruct alts as [|a [|a2 rest]].
    + apply TT_ret. exact I.
    + inversion H; subst. cbn [forallb] in W. apply andb_prop in W. destruct W as [W _].
      eapply TT_weaken; [|apply H2; eauto]. cbn. intros ->. reflexivity.
    + destruct (filt fcfg g ctx _); [|apply TT_ret; exact I].
      apply (choice_loop_TT ctx l (a :: a2 :: rest) st gl H st gl AN). unfold kat. rewrite Nat.eqb_refl. exact W.
  - (* ESeq *)
    rewrite wfeL_seq_eq in W. destruct parts as [|p [|p2 rest]].
    + apply TT_ret. cbn. split; [lia|]. split; [reflexivity|]. split; [apply mono_refl|split; assumption].
    + inversion H; subst. cbn [wfseqL] in W. apply andb_prop in W. destruct W as [W _].
      eapply TT_weaken; [|apply H2; eauto]. cbn. intros ->. reflexivity.
    + destruct (filt fcfg g ctx _); [|apply TT_ret; exact I].
      apply (seq_loop_TT ctx l (p :: p2 :: rest) st gl H st [] gl AN). unfold kat. rewrite Nat.eqb_refl. exact W.
  - (* EGroup *) cbn [wfeL] in W. apply IHe; assumption.
  - (* EOptional *)
    cbn [wfeL] in W.
    apply (TT_bind (fun f => ev_expr (Run f) ctx e st gl)
             (fun x _ => match x with
                         | (MOk fs st', gl') => (MOk fs st', gl')
                         | (MErr er, gl') =>
                           match filt fcfg g ctx e with
                           | None => (MPanic PanicUncompilable, gl')
                           | Some fds =>
                             match defaults fds with
                             | Some d => (MOk d (record_error scfg st er), gl')
                             | None => (MPanic PanicShape, gl')
                             end
                           end
                         | (MPanic p, gl') => (MPanic p, gl')
                         | (MFuel, gl') => (MFuel, gl')
                         end) (enull e) true st gl); [apply IHe; assumption|].
    intros x P. apply TT_ret. destruct x as [[fs st'|er|p|] gl']; cbn in P |- *; auto.
    + destruct P as (P1 & _ & P3 & P4 & P5). auto.
    + destruct P as (P3 & P4). destruct (filt fcfg g ctx e); [|exact I]. destruct (defaults l); [|exact I].
      cbn. rewrite off_record. split; [lia|]. split; [reflexivity|]. split; [exact P3|split; [exact P4|apply bnd_record; exact B]].
  - (* EClosure *)
    cbn [wfeL] in W. apply andb_prop in W. destruct W as [W1 W2]. apply Bool.negb_true_iff in W2.
    destruct (filt fcfg g ctx e); [|apply TT_ret; exact I].
    eapply TT_weaken; [|apply (loop_TT e IHe ctx plus st 0 (empty_vecs l) gl G A W1 W2)].
    cbn [WellFormed.enull]. rewrite W2. destruct plus; cbn; auto.
  - (* ENeg *)
    cbn [wfeL] in W.
    apply (TT_bind (fun f => ev_expr (Run f) ctx e st gl)
             (fun x _ => match x with
                         | (MOk _ _, gl') => fail_at ustate scfg st NegativeLookaheadFailed gl'
                         | (MErr _, gl') => (MOk [] st, gl')
                         | (MPanic p, gl') => (MPanic p, gl')
                         | (MFuel, gl') => (MFuel, gl')
                         end) (enull e) true st gl); [apply IHe; assumption|].
    intros x P. apply TT_ret. destruct x as [[fs st'|er|p|] gl']; cbn in P |- *; auto.
    + destruct P as (_ & _ & P3 & P4 & _). split; [eapply mono_trans; [exact P3|apply mono_same; reflexivity]|eapply CInv_same; [|exact P4]; reflexivity].
    + destruct P as (P3 & P4). split; [lia|]. split; [reflexivity|]. split; [exact P3|split; assumption].
  - (* EPos *)
    cbn [wfeL] in W.
    apply (TT_bind (fun f => ev_expr (Run f) ctx e st gl)
             (fun x _ => match x with
                         | (MOk _ _, gl') => (MOk [] st, gl')
                         | (MErr er, gl') => (MErr er, gl')
                         | (MPanic p, gl') => (MPanic p, gl')
                         | (MFuel, gl') => (MFuel, gl')
                         end) (enull e) true st gl); [apply IHe; assumption|].
    intros x P. apply TT_ret. destruct x as [[fs st'|er|p|] gl']; cbn in P |- *; auto.
    destruct P as (_ & _ & P3 & P4 & _). split; [lia|]. split; [reflexivity|]. split; [exact P3|split; assumption].
  - (* ERange *)
    cbn [wfeL] in W. destruct (compile_range a b); try (apply TT_ret; exact I).
    apply no_fields_TT.
    apply (with_ws_TT false ctx st gl st gl (fun _ st1 gl1 =>
             lift_t ustate (fun _ => tt) (ExpectedCharacterRange a0 b0) st1 (parse_character_range scfg tcfg st1 a0 b0) gl1) AN).
    + unfold kat. rewrite Nat.eqb_refl. exact W.
    + intros st1 gl1 (_ & _ & _ & _ & G1) _ _. apply lift_TT; [exact G1|]. cbn. apply off_range.
  - (* ELit *)
    cbn [wfeL] in W. destruct (compile_lit (insens_guard rcfg) i b) as [m| | |] eqn:CL; try (apply TT_ret; exact I).
    apply no_fields_TT.
    apply (with_ws_TT (enull (ELit i b)) ctx st gl st gl (fun _ st1 gl1 => run_lit ustate scfg tcfg m st1 gl1) AN).
    + unfold kat. rewrite Nat.eqb_refl. exact W.
    + intros st1 gl1 (_ & _ & _ & _ & G1) _ _. apply run_lit_TT; [exact G1|]. cbn [WellFormed.enull]. intro N.
      eapply compile_lit_nonnull; [exact CL|]. destruct b; [discriminate|discriminate].
  - (* EEoi *)
    cbn [wfeL] in W. apply no_fields_TT.
    apply (with_ws_TT true ctx st gl st gl (fun _ st1 gl1 =>
             lift_t ustate (fun _ => tt) ExpectedEoi st1 (parse_end_of_input scfg st1) gl1) AN).
    + unfold kat. rewrite Nat.eqb_refl. exact W.
    + intros st1 gl1 (_ & _ & _ & _ & G1) _ _. apply lift_TT; [exact G1|]. cbn. apply off_eoi.
  - (* EInclude *)
    cbn [wfeL] in W. destruct (find_rule g n) as [r|] eqn:F; [|apply TT_ret; exact I].
    destruct (fr_in _ _ _ F) as [I1 I2]. pose proof (wfl_nul _ I1) as Kn. cbn [nul_ok_rule] in Kn. rewrite I2 in Kn.
    eapply TT_weaken; [|apply (Hki (c_skip ctx) n r W F ctx st gl eq_refl G A)].
    cbn [WellFormed.enull]. intro Hx. rewrite Hx in Kn. exact Kn.
  - (* EField *)
    cbn [wfeL] in W. apply andb_prop in W. destruct W as [W1 W2].
    assert (P : TT (nul t) st gl (fun f0 => with_ws ustate (Run f0) ctx st gl (fun st0 gl0 => ev_rule (Run f0) t st0 gl0))).
    { apply (with_ws_TT (nul t) ctx st gl st gl (fun ev st1 gl1 => ev_rule ev t st1 gl1) AN).
      - unfold kat. rewrite Nat.eqb_refl. exact W1.
      - intros st1 gl1 (G0 & A0 & L1 & M1 & G1) _ _. apply (sub_r t st gl st1 gl1 G0 A0 L1 M1 G1). apply bok_kat. exact W2. }
    destruct (fname_of f) as [fnm|]; [|apply no_fields_TT; exact P].
    apply (TT_bind _ (fun x _ => match x with
                                | (MOk v st', gl') =>
                                  match postprocess (c_fields ctx) fnm t v with
                                  | Some fs => (MOk fs st', gl')
                                  | None => (MPanic PanicShape, gl')
                                  end
                                | (MErr e, gl') => (MErr e, gl')
                                | (MPanic p, gl') => (MPanic p, gl')
                                | (MFuel, gl') => (MFuel, gl')
                                end) (nul t) (nul t) st gl P).
    intros x Px. apply TT_ret. destruct x as [[v st'|e|p|] gl']; cbn in Px |- *; auto.
    destruct (postprocess (c_fields ctx) fnm t v); [exact Px|exact I].
Qed.


(* @char rules: the parts are tried at one state, the cache may have grown in between *)
Lemma char_parts_TT nm ps st0 gl0 : forall st gl,
  Anch st0 gl0 st gl -> (forall m, In (CPIdent m) ps -> bok (kat st0 st k) (UCall m) = true) ->
  TT (existsb (fun p => match p with CPIdent m => nul m | _ => false end) ps) st gl
     (fun f => char_parts ustate scfg tcfg (Run f) nm ps st gl).
Proof.
  induction ps as [|pt ps IH]; intros st gl A Bk; cbn [char_parts].
  - apply fail_TT. destruct A as (_ & _ & _ & _ & [_ C]). exact C.
  - assert (IH' : forall gl', mono gl gl' -> CInv gl' ->
               TT (existsb (fun p => match p with CPIdent m => nul m | _ => false end) ps) st gl'
                  (fun f => char_parts ustate scfg tcfg (Run f) nm ps st gl')).
    { intros gl' M C'. apply IH; [|intros m Hm; apply Bk; right; exact Hm].
      destruct A as (G0 & A0 & L1 & M1 & [B1 C1]). split; [exact G0|]. split; [exact A0|]. split; [exact L1|].
      split; [eapply mono_trans; eauto|split; assumption]. }
    pose proof A as (G0 & A0 & L1 & M1 & G1). destruct G1 as [B1 C1].
    destruct pt as [i|a b|n].
    + destruct (decode_item i) as [c| |]; try (apply TT_ret; exact I).
      pose proof (off_clit scfg tcfg st c) as T.
      destruct (parse_character_literal scfg tcfg st c) as [v st'|e| |]; cbn in T; try (apply TT_ret; exact I).
      * destruct T as [T1 T2]. apply TT_ret. cbn. split; [lia|]. split; [intro; lia|]. split; [apply mono_refl|split; [exact C1|auto]].
      * eapply TT_weaken; [|apply IH'; [apply mono_refl|exact C1]]. auto.
    + destruct (compile_range a b) as [x y| |]; try (apply TT_ret; exact I).
      pose proof (off_range scfg tcfg st x y) as T.
      destruct (parse_character_range scfg tcfg st x y) as [v st'|e| |]; cbn in T; try (apply TT_ret; exact I).
      * destruct T as [T1 T2]. apply TT_ret. cbn. split; [lia|]. split; [intro; lia|]. split; [apply mono_refl|split; [exact C1|auto]].
      * eapply TT_weaken; [|apply IH'; [apply mono_refl|exact C1]]. auto.
    + apply (TT_bind (fun f => ev_rule (Run f) n st gl)
               (fun x f => match x with
                           | (MOk v st', gl') => (MOk v st', gl')
                           | (MErr _, gl') => char_parts ustate scfg tcfg (Run f) nm ps st gl'
                           | (MPanic p, gl') => (MPanic p, gl')
                           | (MFuel, gl') => (MFuel, gl')
                           end) (nul n) _ st gl).
      * exact (sub_r n st0 gl0 st gl G0 A0 L1 M1 (conj B1 C1) (Bk n (or_introl eq_refl))).
      * intros x P. destruct x as [[v st'|e|p|] gl']; cbn in P; try (apply TT_ret; exact P).
        -- apply TT_ret. destruct P as (P1 & P2 & P3 & P4 & P5). cbn. split; [exact P1|]. split; [|split; [exact P3|split; assumption]].
           intro E. rewrite (P2 E). reflexivity.
        -- destruct P as (P3 & P4). eapply TT_later; [apply Nat.le_refl|exact P3| |apply IH'; assumption].
           cbn [existsb]. intros _ Hx. rewrite Hx. apply Bool.orb_true_r.
Qed.

End Core.

(* ---- rule bodies, given the body expression ---------------------------------------------------- *)
Lemma run_checks_same cs v : forall st' gl,
  match run_checks ustate scfg hk cs v st' gl with
  | (MOk _ s, gl2) => s = st' /\ g_cache gl2 = g_cache gl
  | (MErr _, gl2) => g_cache gl2 = g_cache gl
  | (MPanic _, _) => True
  | (MFuel, _) => False
  end.
Proof.
  induction cs as [|f cs IH]; intros st' gl; cbn [run_checks]; [auto|].
  destruct (h_check hk f v (g_user gl)) as [ok u]. destruct ok.
  - specialize (IH st' (set_user ustate u gl)). destruct (run_checks ustate scfg hk cs v st' (set_user ustate u gl)) as [[w s|e|p|] gl2]; auto.
  - cbn. auto.
Qed.

Lemma rule_body_TT r st gl :
  (forall ctx, c_skip ctx = negb (fl_no_skip_ws (flags_of (r_directives r))) ->
     TT (enull (r_def r)) st gl (fun f => ev_expr (Run f) ctx (r_def r) st gl)) ->
  TT (enull (r_def r)) st gl (fun f => rule_body ustate scfg fcfg hk g (Run f) r st gl).
Proof.
  intro H. unfold rule_body.
  destruct (get_fields fcfg (gf_fuel g) g (r_def r)) as [rf| |]; try (apply TT_ret; exact I).
  set (ctx := {| c_skip := negb (fl_no_skip_ws (flags_of (r_directives r))); c_fields := rf |}).
  apply (TT_bind (fun f => ev_expr (Run f) ctx (r_def r) st gl)
           (fun x _ => match x with
                       | (MOk fs st', gl') =>
                         match (if fl_string (flags_of (r_directives r))
                                then Some (if fl_position (flags_of (r_directives r))
                                           then VStruct (r_name r) [(n_string, VStr (slice_until st st'))] (Some (range_until st st'))
                                           else VStr (slice_until st st'))
                                else match rf with
                                     | [fd] =>
                                       if name_eqb (fd_name fd) n_override then lookup n_override fs
                                       else Some (VStruct (r_name r) fs (if fl_position (flags_of (r_directives r)) then Some (range_until st st') else None))
                                     | _ => Some (VStruct (r_name r) fs (if fl_position (flags_of (r_directives r)) then Some (range_until st st') else None))
                                     end) with
                         | Some v => run_checks ustate scfg hk (checks_of (r_directives r)) v st' gl'
                         | None => (MPanic PanicShape, gl')
                         end
                       | (MErr e, gl') => (MErr e, gl')
                       | (MPanic p, gl') => (MPanic p, gl')
                       | (MFuel, gl') => (MFuel, gl')
                       end) (enull (r_def r)) (enull (r_def r)) st gl); [apply H; reflexivity|].
  intros x P. apply TT_ret. destruct x as [[fs st'|e|p|] gl']; cbn in P |- *; auto.
  destruct P as (P1 & P2 & P3 & P4 & P5).
  match goal with |- postS _ _ _ (match ?o with _ => _ end) => destruct o as [v|] end; [|exact I].
  pose proof (run_checks_same (checks_of (r_directives r)) v st' gl') as K.
  destruct (run_checks ustate scfg hk (checks_of (r_directives r)) v st' gl') as [[w s|e|p|] gl2]; cbn; auto.
  - destruct K as (-> & K1). split; [exact P1|]. split; [exact P2|].
    split; [eapply mono_trans; [exact P3|apply mono_same; exact K1]|split; [eapply CInv_same; eauto|exact P5]].
  - split; [eapply mono_trans; [exact P3|apply mono_same; exact K]|eapply CInv_same; eauto].
Qed.


Lemma CInv_put n o c gl :
  CInv gl -> (forall v s, c = COk v s -> o <= off s /\ (off s = o -> nul n = true) /\ bnd s) ->
  CInv (cache_put ustate n o c gl).
Proof.
  intros C H n' o' v s E. cbn in E.
  destruct (name_eqb n' n && Nat.eqb o' o) eqn:Q; [|eauto].
  injection E as ->. apply andb_prop in Q. destruct Q as [Q1 Q2]. apply name_eqb_eq in Q1. apply Nat.eqb_eq in Q2. subst.
  eapply H. reflexivity.
Qed.

Lemma ltl_mono st gl gl2 : mono gl gl2 -> ltl (lvl st gl) (rem, oc) -> ltl (lvl st gl2) (rem, oc).
Proof.
  intros M H. pose proof (ocount_mono gl gl2 (off st) M) as O. unfold ltl, lvl in *. cbn [fst snd] in *.
  destruct H as [H|[H1 H2]]; [left; exact H|right; split; [exact H1|lia]].
Qed.

(* ---- the growth loop of a @leftrec rule whose seed is in the cache (so the level is lower) ------- *)
Definition Icached (st : pstate) (n : name) (c : cached) : Prop :=
  match c with
  | COk _ bst => off st <= off bst /\ (off bst = off st -> nul n = true) /\ bnd bst
  | CErr _ => True
  end.

Definition room (best : cached) : nat :=
  match best with COk _ bst => S LEN - off bst | CErr _ => S (S LEN) end.

Lemma body_wf r : In (GRule r) g ->
  wfeL None (negb (fl_no_skip_ws (flags_of (r_directives r)))) (r_def r) = true /\
  (enull (r_def r) = true -> nul (r_name r) = true).
Proof.
  intro Hin. pose proof (wfl_rank _ Hin) as K. cbn [rank_ok_lr] in K.
  apply andb_prop in K. destruct K as [K _]. apply andb_prop in K. destruct K as [K _].
  pose proof (wfl_nul _ Hin) as Kn. cbn [nul_ok_rule] in Kn.
  split; [eapply wfeL_weaken; eauto|]. intro H. rewrite H in Kn. exact Kn.
Qed.

Lemma grow_TT r st : In (GRule r) g -> bnd st ->
  forall d best gl, room best <= d -> CInv gl -> Icached st (r_name r) best ->
    ltl (lvl st gl) (rem, oc) ->
    TT (nul (r_name r)) st gl (fun f => ev_grow (Run f) r st best gl).
Proof.
  intros Hin B. destruct (body_wf r Hin) as [Wb Hn].
  induction d as [|d IH]; intros best gl Rm C Ic Low.
  - exfalso. destruct best as [bv bst|be]; unfold room, Icached in *; [|lia]. destruct Ic as (_ & _ & Bb). pose proof (bnd_le _ Bb). lia.
  - apply (TT_step _ _ _ _ (fun f => grow_step ustate scfg fcfg rcfg hk g (Run f) r st best gl)); [intro f; apply run_S_grow|].
    unfold grow_step.
    set (gl1 := trace ustate (TInfo 2) gl).
    assert (C1 : CInv gl1) by (eapply CInv_same; [|exact C]; reflexivity).
    assert (L1 : ltl (lvl st gl1) (rem, oc)) by (eapply ltl_mono; [apply mono_same; reflexivity|exact Low]).
    apply (TT_bind (fun f => rule_body ustate scfg fcfg hk g (Run f) r st gl1)
             (fun x f => match x with
                         | (MOk v st', gl2) =>
                           match best with
                           | COk _ bst =>
                             if is_further_than scfg st' bst
                             then ev_grow (Run f) r st (COk v st') (cache_put ustate (r_name r) (off st) (COk v st') gl2)
                             else (of_cached best, gl2)
                           | CErr _ => ev_grow (Run f) r st (COk v st') (cache_put ustate (r_name r) (off st) (COk v st') gl2)
                           end
                         | (MErr e, gl2) =>
                           if leftrec_closed rcfg then
                             match best with
                             | COk _ _ => (of_cached best, gl2)
                             | CErr _ => (MErr e, cache_put ustate (r_name r) (off st) (CErr e) gl2)
                             end
                           else (MErr e, gl2)
                         | (MPanic p, gl2) => (MPanic p, gl2)
                         | (MFuel, gl2) => (MFuel, gl2)
                         end) (enull (r_def r)) (nul (r_name r)) st gl).
    + apply (TT_later (enull (r_def r)) (enull (r_def r)) st st gl gl1); [apply Nat.le_refl|apply mono_same; reflexivity| |apply rule_body_TT].
      * auto.
      * intros ctx Hs. apply (a_e _ _ (IHlt st gl1 (conj B C1) L1)). rewrite Hs. exact Wb.
    + intros x P. destruct x as [[v st'|e|p|] gl2]; cbn in P; try (apply TT_ret; exact P).
      * destruct P as (P1 & P2 & P3 & P4 & P5).
        assert (Grow : forall bst0 : unit, room (COk v st') <= d ->
                  TT (nul (r_name r)) st gl
                     (fun f => ev_grow (Run f) r st (COk v st') (cache_put ustate (r_name r) (off st) (COk v st') gl2))).
        { intros _ Rm'. eapply TT_later; [apply Nat.le_refl| | |apply IH].
          - eapply mono_trans; [exact P3|apply mono_put].
          - auto.
          - exact Rm'.
          - apply CInv_put; [exact P4|]. intros v0 s0 E. injection E as <- <-. split; [exact P1|split; [auto|exact P5]].
          - cbn. split; [exact P1|split; [auto|exact P5]].
          - eapply ltl_mono; [|exact Low]. eapply mono_trans; [exact P3|apply mono_put]. }
        pose proof (bnd_le _ P5) as Le'.
        destruct best as [bv bst|be].
        -- unfold is_further_than. rewrite Hstrict. unfold room, Icached in *. destruct Ic as (I1 & I2 & I3). pose proof (bnd_le _ I3) as LeB.
           destruct (Nat.ltb (off bst) (off st')) eqn:Q.
           ++ apply Nat.ltb_lt in Q. apply (Grow tt). lia.
           ++ apply TT_ret. cbn. split; [exact I1|]. split; [exact I2|]. split; [exact P3|split; assumption].
        -- apply (Grow tt). unfold room in *. lia.
      * destruct P as (P3 & P4). rewrite Hlrc. apply TT_ret. destruct best as [bv bst|be]; cbn.
        -- unfold Icached in Ic. destruct Ic as (I1 & I2 & I3). split; [exact I1|]. split; [exact I2|]. split; [exact P3|split; assumption].
        -- split; [eapply mono_trans; [exact P3|apply mono_put]|]. apply CInv_put; [exact P4|]. intros v0 s0 E. discriminate.
Qed.


Lemma ocount_same gl gl' p : g_cache gl' = g_cache gl -> ocount gl' p = ocount gl p.
Proof. intro E. unfold ocount, open_b. rewrite E. reflexivity. Qed.

Lemma at_lvl_same st gl gl' : g_cache gl' = g_cache gl -> at_lvl st gl -> at_lvl st gl'.
Proof. intros E A. unfold at_lvl, lvl in *. rewrite (ocount_same gl gl' _ E). exact A. Qed.

Lemma Good_same st gl gl' : g_cache gl' = g_cache gl -> Good st gl -> Good st gl'.
Proof. intros E [B C]. split; [exact B|eapply CInv_same; eauto]. Qed.

(* the result of a rule call, given the result of its (memoizing / growing) wrapper *)
Lemma rule_wrap_TT n r st gl :
  find_grule g n = Some (GRule r) ->
  TT (nul n) st (trace ustate (TStart (r_name r) (off st)) gl)
     (fun f => memo_wrap ustate scfg fcfg rcfg hk g (Run f) r st (trace ustate (TStart (r_name r) (off st)) gl)) ->
  TT (nul n) st gl (fun f => ev_rule (Run f) n st gl).
Proof.
  intros F H.
  apply (TT_step _ _ _ _ (fun f => rule_step ustate scfg tcfg fcfg rcfg hk g (Run f) n st gl)); [intro f; apply run_S_rule|].
  unfold rule_step. rewrite F.
  eapply TT_later; [apply Nat.le_refl|apply (mono_same gl (trace ustate (TStart (r_name r) (off st)) gl)); reflexivity| |].
  { intros _ Hx. exact Hx. }
  set (gl1 := trace ustate (TStart (r_name r) (off st)) gl) in *.
  set (K := fun (x : R value) (_ : nat) =>
              match x with
              | (MOk v st', gl2) => (MOk v st', trace ustate (TResOk (off st')) gl2)
              | (MErr e, gl2) => (MErr e, trace ustate (TResErr e) gl2)
              | (MPanic p, gl2) => (MPanic p, gl2)
              | (MFuel, gl2) => (MFuel, gl2)
              end).
  apply (TT_ext _ _ _ (fun f => K (memo_wrap ustate scfg fcfg rcfg hk g (Run f) r st gl1) f)).
  { intro f. unfold K. destruct (memo_wrap ustate scfg fcfg rcfg hk g (Run f) r st gl1) as [[v s|e|p|] gl2]; reflexivity. }
  apply (TT_bind _ K (nul n) (nul n) st gl1 H). unfold K.
  intros x P. apply TT_ret. destruct x as [[v st'|e|p|] gl2]; cbn in P |- *; auto.
Qed.

Lemma cached_TT n st gl c t :
  CInv gl -> cache_get n (off st) (g_cache gl) = Some c ->
  TT (nul n) st gl (fun _ => (of_cached c, trace ustate t gl)).
Proof.
  intros C CG. apply TT_ret. destruct c as [v s|e]; cbn.
  - destruct (C _ _ _ _ CG) as (C1 & C2 & C3). split; [exact C1|]. split; [exact C2|].
    split; [apply mono_same; reflexivity|split; [eapply CInv_same; [|exact C]; reflexivity|exact C3]].
  - split; [apply mono_same; reflexivity|eapply CInv_same; [|exact C]; reflexivity].
Qed.

(* a @leftrec rule: no rank needed *)
Lemma lr_rule_TT n : is_lr n = true -> forall st gl, Good st gl -> at_lvl st gl ->
  TT (nul n) st gl (fun f => ev_rule (Run f) n st gl).
Proof.
  intros L st gl G A. pose proof L as L'. unfold is_lr in L'.
  destruct (find_grule g n) as [[r|c|x]|] eqn:F; try discriminate.
  destruct (fg_in _ _ _ F) as [Hin Hn]. cbn in Hn. subst n.
  apply (rule_wrap_TT (r_name r) r st gl F).
  set (gl1 := trace ustate (TStart (r_name r) (off st)) gl).
  assert (G1 : Good st gl1) by (eapply Good_same; [|exact G]; reflexivity).
  assert (A1 : at_lvl st gl1) by (eapply at_lvl_same; [|exact A]; reflexivity).
  destruct G1 as [B C1].
  unfold memo_wrap. rewrite L'.
  destruct (cache_get (r_name r) (off st) (g_cache gl1)) as [c|] eqn:CG; [apply cached_TT; assumption|].
  set (sent := CErr (report_error scfg st LeftRecursionSentinel)).
  assert (Low : ltl (lvl st (cache_put ustate (r_name r) (off st) sent gl1)) (rem, oc)).
  { unfold at_lvl, lvl in A1. injection A1 as A2 A3. unfold ltl, lvl. cbn [fst snd]. right. split; [exact A2|].
    rewrite <- A3. apply ocount_put; assumption. }
  apply (TT_later (nul (r_name r)) (nul (r_name r)) st st gl1 (cache_put ustate (r_name r) (off st) sent gl1));
    [apply Nat.le_refl|apply mono_put|auto|].
  apply (grow_TT r st Hin B (S (S LEN)) sent); [cbn; lia| |exact I|exact Low].
  apply CInv_put; [exact C1|]. intros v s E. discriminate.
Qed.

(* ---- by rank ------------------------------------------------------------------------------------ *)
Lemma units : forall Rk,
  (forall n, is_lr n = true \/ rk (UCall n) < Rk -> forall st gl, Good st gl -> at_lvl st gl ->
     TT (nul n) st gl (fun f => ev_rule (Run f) n st gl)) /\
  (forall s n r, rk (UInc s n) < Rk -> find_rule g n = Some r ->
     forall ctx st gl, c_skip ctx = s -> Good st gl -> at_lvl st gl ->
     TT (enull (r_def r)) st gl (fun f => ev_expr (Run f) ctx (r_def r) st gl)).
Proof.
  induction Rk as [|Rk [IH1 IH2]].
  - split; [|intros; lia]. intros n [L|L]; [apply lr_rule_TT; exact L|lia].
  - assert (CORE : forall r0, r0 <= Rk -> forall e, Pcore (Some r0) e).
    { intros r0 Hr0. apply core.
      - intros n Bk. cbn in Bk. apply IH1. apply Bool.orb_prop in Bk. destruct Bk as [Bk|Bk]; [left; exact Bk|right; apply Nat.ltb_lt in Bk; lia].
      - intros s n r Bk F ctx st gl Hs. cbn in Bk. apply Nat.ltb_lt in Bk. eapply IH2; eauto. lia. }
    split.
    + intros n [L|L]; [apply lr_rule_TT; exact L|]. intros st gl G A.
      destruct (is_lr n) eqn:LR; [apply lr_rule_TT; assumption|].
      destruct (find_grule g n) as [[r|c|x]|] eqn:F.
      * destruct (fg_in _ _ _ F) as [Hin Hn]. cbn in Hn. subst n.
        apply (rule_wrap_TT (r_name r) r st gl F).
        set (gl1 := trace ustate (TStart (r_name r) (off st)) gl).
        assert (G1 : Good st gl1) by (eapply Good_same; [|exact G]; reflexivity).
        assert (A1 : at_lvl st gl1) by (eapply at_lvl_same; [|exact A]; reflexivity).
        assert (NL : fl_left_recursive (flags_of (r_directives r)) = false) by (unfold is_lr in LR; rewrite F in LR; exact LR).
        pose proof (wfl_rank _ Hin) as K. cbn [rank_ok_lr] in K.
        apply andb_prop in K. destruct K as [K _]. apply andb_prop in K. destruct K as [K _].
        pose proof (wfl_nul _ Hin) as Kn. cbn [nul_ok_rule] in Kn.
        assert (Hnn : enull (r_def r) = true -> nul (r_name r) = true) by (intro Hx; rewrite Hx in Kn; exact Kn).
        assert (BODY : forall glx, g_cache glx = g_cache gl1 ->
                  TT (enull (r_def r)) st glx (fun f => rule_body ustate scfg fcfg hk g (Run f) r st glx)).
        { intros glx E. apply rule_body_TT. intros ctx Hs.
          apply (CORE (rk (UCall (r_name r))) ltac:(lia) (r_def r) ctx st glx); [eapply Good_same; eauto|eapply at_lvl_same; eauto|].
          rewrite Hs. exact K. }
        unfold memo_wrap. rewrite NL.
        destruct (fl_memoize (flags_of (r_directives r))).
        -- destruct (cache_get (r_name r) (off st) (g_cache gl1)) as [c|] eqn:CG; [apply cached_TT; [apply G1|exact CG]|].
           set (gl2 := log_eval ustate (r_name r, off st) gl1).
           set (K2 := fun (x : R value) (_ : nat) =>
                        match x with
                        | (MOk v st', gl') => (MOk v st', cache_put ustate (r_name r) (off st) (COk v st') gl')
                        | (MErr e, gl') =>
                          if memo_closed rcfg then (MErr e, cache_put ustate (r_name r) (off st) (CErr e) gl') else (MErr e, gl')
                        | (MPanic p, gl') => (MPanic p, gl')
                        | (MFuel, gl') => (MFuel, gl')
                        end).
           apply (TT_ext _ _ _ (fun f => K2 (rule_body ustate scfg fcfg hk g (Run f) r st gl2) f)).
           { intro f. unfold K2. destruct (rule_body ustate scfg fcfg hk g (Run f) r st gl2) as [[v s|e|p|] gl']; reflexivity. }
           apply (TT_bind _ K2 (enull (r_def r)) (nul (r_name r)) st gl1).
           ++ apply (TT_later (enull (r_def r)) (enull (r_def r)) st st gl1 gl2); [apply Nat.le_refl|apply mono_same; reflexivity|auto|apply BODY; reflexivity].
           ++ intros x P. apply TT_ret. unfold K2. destruct x as [[v st'|e|p|] gl']; cbn in P |- *; auto.
              ** destruct P as (P1 & P2 & P3 & P4 & P5). split; [exact P1|]. split; [auto|].
                 split; [eapply mono_trans; [exact P3|apply mono_put]|split; [|exact P5]].
                 apply CInv_put; [exact P4|]. intros v0 s0 E. injection E as <- <-. split; [exact P1|split; [auto|exact P5]].
              ** destruct P as (P3 & P4). destruct (memo_closed rcfg); cbn.
                 --- split; [eapply mono_trans; [exact P3|apply mono_put]|]. apply CInv_put; [exact P4|]. intros v0 s0 E. discriminate.
                 --- split; assumption.
        -- eapply TT_weaken; [exact Hnn|]. apply BODY. reflexivity.
      * destruct (fg_in _ _ _ F) as [Hin Hn]. cbn in Hn.
        apply (TT_step _ _ _ _ (fun f => rule_step ustate scfg tcfg fcfg rcfg hk g (Run f) n st gl)); [intro f; apply run_S_rule|].
        unfold rule_step. rewrite F.
        pose proof (wfl_rank _ Hin) as K. cbn [rank_ok_lr] in K. rewrite forallb_forall in K.
        pose proof (wfl_nul _ Hin) as Kn. cbn [nul_ok_rule] in Kn. rewrite Hn in Kn.
        assert (P : TT (nul n) st gl (fun f => char_parts ustate scfg tcfg (Run f) (cr_name c) (cr_choices c) st gl)).
        { assert (HK : forall m, bok (Some (rk (UCall n))) (UCall m) = true -> forall st1 gl1, Good st1 gl1 -> at_lvl st1 gl1 ->
                         TT (nul m) st1 gl1 (fun f => ev_rule (Run f) m st1 gl1)).
          { intros m Bk. cbn in Bk. apply IH1. apply Bool.orb_prop in Bk. destruct Bk as [Bk|Bk]; [left; exact Bk|right; apply Nat.ltb_lt in Bk; lia]. }
          assert (HKI : forall s m r, bok (Some (rk (UCall n))) (UInc s m) = true -> find_rule g m = Some r ->
                          forall ctx st1 gl1, c_skip ctx = s -> Good st1 gl1 -> at_lvl st1 gl1 ->
                          TT (enull (r_def r)) st1 gl1 (fun f => ev_expr (Run f) ctx (r_def r) st1 gl1)).
          { intros s m r Bk Fr ctx st1 gl1 Hs. cbn in Bk. apply Nat.ltb_lt in Bk. eapply IH2; eauto. lia. }
          eapply TT_weaken; [|apply (char_parts_TT (Some (rk (UCall n))) HK HKI (cr_name c) (cr_choices c) st gl st gl)].
          - intro Hx. rewrite Hx in Kn. exact Kn.
          - apply Anch_self; assumption.
          - intros m Hm. specialize (K _ Hm). cbn beta iota in K. rewrite Hn in K. unfold kat. rewrite Nat.eqb_refl. exact K. }
        unfold char_rule_body. destruct (cr_checks c); [exact P|].
        destruct (rest st); [apply fail_TT; apply G|].
        destruct (decode1 (n0 :: b)) as [[ch kk]|]; [|apply TT_ret; exact I].
        destruct (char_checks ustate hk (cr_name c) (l :: l0) ch); [exact P|apply fail_TT; apply G].
      * destruct (fg_in _ _ _ F) as [Hin Hn]. cbn in Hn.
        apply (TT_step _ _ _ _ (fun f => rule_step ustate scfg tcfg fcfg rcfg hk g (Run f) n st gl)); [intro f; apply run_S_rule|].
        unfold rule_step. rewrite F. apply TT_ret.
        pose proof (wfl_nul _ Hin) as Kn. cbn [nul_ok_rule] in Kn. rewrite Hn in Kn. destruct G as [B C].
        unfold extern_rule_body. destruct (h_extern hk (er_function x) (rest st) (g_user gl)) as [res u].
        destruct res as [[v k0]|msg].
        -- unfold advance_safe, advance. destruct (Nat.ltb (length (rest st)) k0) eqn:E; [exact I|]. apply Nat.ltb_ge in E.
           destruct (is_boundary (rest st) k0); [|exact I]. cbn. split; [lia|]. split; [auto|].
           split; [apply mono_same; reflexivity|split; [eapply CInv_same; [|exact C]; reflexivity|]].
           unfold Once.bnd in *. cbn. rewrite skipn_length. lia.
        -- cbn. split; [apply mono_same; reflexivity|eapply CInv_same; [|exact C]; reflexivity].
      * apply (TT_step _ _ _ _ (fun f => rule_step ustate scfg tcfg fcfg rcfg hk g (Run f) n st gl)); [intro f; apply run_S_rule|].
        unfold rule_step. rewrite F.
        destruct (name_eqb n n_char) eqn:E1.
        -- apply lift_TT; [exact G|]. destruct (nul n); cbn; [apply tadv_weaken|]; apply off_char.
        -- destruct (name_eqb n n_Whitespace) eqn:E2; [|apply TT_ret; exact I]. apply name_eqb_eq in E2. subst n.
           apply lift_TT; [exact G|]. rewrite wfl_ws. cbn. apply off_ws.
    + intros s n r L F ctx st gl Hs G A.
      destruct (fr_in _ _ _ F) as [Hin Hn]. pose proof (wfl_rank _ Hin) as K. cbn [rank_ok_lr] in K.
      apply andb_prop in K. destruct K as [K K3]. apply andb_prop in K. destruct K as [_ K2]. rewrite Hn in K2, K3.
      apply (CORE (rk (UInc s n)) ltac:(lia) (r_def r) ctx st gl G A). rewrite Hs. destruct s; assumption.
Qed.


Lemma all_at_level st gl : Good st gl -> at_lvl st gl -> AllAt st gl.
Proof.
  intros G A.
  assert (HK : forall n, bok None (UCall n) = true -> forall st1 gl1, Good st1 gl1 -> at_lvl st1 gl1 ->
                 TT (nul n) st1 gl1 (fun f => ev_rule (Run f) n st1 gl1)).
  { intros n _. apply (proj1 (units (S (rk (UCall n)))) n). right. lia. }
  assert (HKI : forall s n r, bok None (UInc s n) = true -> find_rule g n = Some r ->
                  forall ctx st1 gl1, c_skip ctx = s -> Good st1 gl1 -> at_lvl st1 gl1 ->
                  TT (enull (r_def r)) st1 gl1 (fun f => ev_expr (Run f) ctx (r_def r) st1 gl1)).
  { intros s n r _ F. apply (proj2 (units (S (rk (UInc s n)))) s n r); [lia|exact F]. }
  constructor.
  - intro n. apply HK; [apply bok_none|exact G|exact A].
  - intros ctx e W. apply (core None HK HKI e ctx st gl G A W).
  - intros ctx b plus it acc W N. eapply loop_TT; eauto. apply (core None HK HKI b).
Qed.

End Level.

Theorem all_levels : forall rem oc st gl, Good st gl -> lvl st gl = (rem, oc) -> AllAt st gl.
Proof.
  induction rem as [rem IHr] using lt_wf_ind. induction oc as [oc IHo] using lt_wf_ind.
  intros st gl G E. apply (all_at_level rem oc); [|exact G|exact E].
  intros st' gl' G' [Lt|[Eq Lt]].
  - destruct (lvl st' gl') as [r' o'] eqn:L'. cbn in Lt. apply (IHr r' Lt o' st' gl' G' L').
  - destruct (lvl st' gl') as [r' o'] eqn:L'. cbn in Eq, Lt. subst r'. apply (IHo o' Lt st' gl' G' L').
Qed.

End LR.

(* the model of the generated parser returns on every input, from some recursion bound on *)
Theorem lr_terminates ustate scfg tcfg fcfg rcfg (hk : hooks ustate) g nul rk :
  wf_check_lr g nul rk = true -> further_gt scfg = true -> leftrec_closed rcfg = true ->
  forall rule_name input u,
  exists F x, fst x <> MFuel /\
    forall f, F <= f -> m_parse ustate scfg tcfg fcfg rcfg hk g f rule_name input u = x.
Proof.
  intros WF Hs Hl rule_name input u.
  assert (G : Good ustate nul (length input) (init_state input) (init_glob ustate u)).
  { split; [unfold Once.bnd, init_state; cbn; lia|]. intros n o v s H. discriminate. }
  destruct (lvl ustate g (length input) (init_state input) (init_glob ustate u)) as [r0 o0] eqn:L.
  pose proof (all_levels ustate scfg tcfg fcfg rcfg hk g nul rk (length input) WF Hs Hl r0 o0 _ _ G L) as A.
  destruct (a_r _ _ _ _ _ _ _ _ _ _ _ _ A rule_name) as [x [[N [F H]] _]].
  exists F, x. split; [|exact H]. unfold nofuel in N. destruct (fst x); try discriminate. contradiction.
Qed.

(* ---- computing the certificate (nothing is proved about the analysis: its output is checked) ---- *)
Definition nonlr (g : grammar) (u : runit) : bool :=
  match u with UCall m => negb (is_lr g m) | UInc _ _ => true end.

Definition unit_heads_lr (g : grammar) (nul : name -> bool) (u : runit) : list runit :=
  filter (nonlr g)
    (match u with
     | UCall n =>
       match find_grule g n with
       | Some (GRule r) => heads nul (negb (fl_no_skip_ws (flags_of (r_directives r)))) (r_def r)
       | Some (GChar r) => flat_map (fun p => match p with CPIdent m => [UCall m] | _ => [] end) (cr_choices r)
       | _ => []
       end
     | UInc s n =>
       match find_rule g n with
       | Some r => heads nul s (r_def r)
       | None => []
       end
     end).

Definition rk_step_lr (g : grammar) (nul : name -> bool) (t : list (runit * nat)) : list (runit * nat) :=
  map (fun ur => let u := fst ur in
                 (u, match unit_heads_lr g nul u with
                     | [] => 0
                     | hs => S (fold_right (fun h a => Nat.max (rk_lookup t h) a) 0 hs)
                     end)) t.

Fixpoint rk_iter_lr (g : grammar) (nul : name -> bool) (k : nat) (t : list (runit * nat)) : list (runit * nat) :=
  match k with
  | O => t
  | S k' => rk_iter_lr g nul k' (rk_step_lr g nul t)
  end.

Definition analyse_lr (g : grammar) : cert :=
  let nl := nul_iter g (S (length g)) [] in
  let nul := nul_of nl in
  let us := all_units g in
  let t := rk_iter_lr g nul (S (length us)) (map (fun u => (u, 0)) us) in
  {| c_nul := nul; c_rk := rk_lookup t |}.

(* left recursion goes through @leftrec rules only, no closure over a body that can succeed
   without consuming: the computed certificate passes the check *)
Definition well_formed_lr (g : grammar) : bool :=
  let c := analyse_lr g in wf_check_lr g (c_nul c) (c_rk c).

Theorem well_formed_lr_terminates ustate scfg tcfg fcfg rcfg (hk : hooks ustate) g :
  well_formed_lr g = true -> further_gt scfg = true -> leftrec_closed rcfg = true ->
  forall rule_name input u,
  exists F x, fst x <> MFuel /\
    forall f, F <= f -> m_parse ustate scfg tcfg fcfg rcfg hk g f rule_name input u = x.
Proof. intros W. unfold well_formed_lr in W. exact (lr_terminates ustate scfg tcfg fcfg rcfg hk g _ _ W). Qed.

(* E = l:*E '+' t:T | t:T;  T = l:*T '*' n:N | n:N;  both @leftrec;  @string N = {'0'..'9'}+ *)
Definition nE : name := [69%N].
Definition nT : name := [84%N].
Definition nN : name := [78%N].
Definition nl_ : name := [108%N].
Definition nt_ : name := [116%N].
Definition nn_ : name := [110%N].
Definition g_calc : grammar :=
  [GRule {| r_directives := [DExport; DLeftrec]; r_name := nE;
            r_def := EChoice [ESeq [EField (FNamed nl_) true nE; ELit false [SIChar 43%N]; EField (FNamed nt_) false nT];
                              ESeq [EField (FNamed nt_) false nT]] |};
   GRule {| r_directives := [DLeftrec]; r_name := nT;
            r_def := EChoice [ESeq [EField (FNamed nl_) true nT; ELit false [SIChar 42%N]; EField (FNamed nn_) false nN];
                              ESeq [EField (FNamed nn_) false nN]] |};
   GRule {| r_directives := [DString; DNoSkipWs]; r_name := nN;
            r_def := EChoice [ESeq [EClosure (EChoice [ESeq [ERange (SIChar 48%N) (SIChar 57%N)]]) true]] |}].

Example calc_well_formed_lr : well_formed_lr g_calc = true.
Proof. vm_compute. reflexivity. Qed.

(* left recursion that does not go through a @leftrec rule is rejected *)
Definition g_calc_unmarked : grammar :=
  [GRule {| r_directives := [DExport]; r_name := nE;
            r_def := EChoice [ESeq [EField (FNamed nl_) true nE; ELit false [SIChar 43%N]; EField (FNamed nn_) false nN];
                              ESeq [EField (FNamed nn_) false nN]] |};
   GRule {| r_directives := [DString; DNoSkipWs]; r_name := nN;
            r_def := EChoice [ESeq [EClosure (EChoice [ESeq [ERange (SIChar 48%N) (SIChar 57%N)]]) true]] |}].

Example unmarked_not_well_formed_lr : well_formed_lr g_calc_unmarked = false.
Proof. vm_compute. reflexivity. Qed.
