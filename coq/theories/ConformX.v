(* The simulation instantiated at the decision points regenerated from the
   source (Extracted.v); its side conditions are discharged by computation. *)
From PegV Require Import Utf8 Utf8Facts State Terminals Syntax Fields FieldsFacts GetFieldsFacts
  Literals Model Spec Sim Conform Extracted.

Lemma conform_x :
  forall (ustate : Type) (hk : hooks ustate) (shk : shooks) (g : grammar),
    pure_hooks ustate hk shk -> plain_grammar g ->
    forall fuel rule_name cs u, all_scalar cs ->
      conforms cs
        (fst (m_parse ustate Extracted.scfg Extracted.tcfg Extracted.fcfg Extracted.rcfg hk g
                      fuel rule_name (encode_str cs) u))
        (s_parse Extracted.fcfg shk g true fuel rule_name cs).
Proof.
  intros ustate hk shk g Hp Hg. exact (conform ustate Extracted.scfg Extracted.fcfg Extracted.rcfg hk shk g
    eq_refl eq_refl eq_refl Hp Hg).
Qed.

Lemma sim_x :
  forall (ustate : Type) (hk : hooks ustate) (shk : shooks) (g : grammar),
    pure_hooks ustate hk shk -> plain_grammar g ->
    forall n,
    (forall ctx e st gl cs,
      dom Extracted.fcfg g (gf_fuel g) (c_fields ctx) e -> wf_rf (c_fields ctx) ->
      rest st = encode_str cs -> all_scalar cs ->
      corr (RVe Extracted.fcfg g ctx e) (far st) cs (off st)
           (fst (ev_expr (run ustate Extracted.scfg Extracted.tcfg Extracted.fcfg Extracted.rcfg hk g n) ctx e st gl))
           (sv_expr (srun Extracted.fcfg shk g true n) (c_skip ctx) e cs (off st))) /\
    (forall nm st gl cs,
      rest st = encode_str cs -> all_scalar cs ->
      corr eq (far st) cs (off st)
           (fst (ev_rule (run ustate Extracted.scfg Extracted.tcfg Extracted.fcfg Extracted.rcfg hk g n) nm st gl))
           (sv_rule (srun Extracted.fcfg shk g true n) nm cs (off st))).
Proof.
  intros ustate hk shk g [P1 [P2 P3]] Hg n.
  destruct (sim_all ustate Extracted.scfg eq_refl Extracted.fcfg eq_refl Extracted.rcfg eq_refl
                    hk shk P1 P2 P3 g Hg n) as [H1 [H2 _]].
  split; [exact H1|exact H2].
Qed.
