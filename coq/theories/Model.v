(* M — definitional interpreter mirroring the code templates of codegen/src/*.rs
   instantiated on a grammar, on top of the runtime model (State, Terminals).
   One combinator per template; the threaded ParseState with its farthest
   error; ChoiceHelper; the closure loop; optional's or_else; the lookahead
   wrappers; generate_skip_ws; field post-processing (enum wrap, Some / vec!
   by rule-level arity); sequence destructure/extend; choice result
   conversion; rule wrappers (@string slice, @position range, override,
   struct assembly, check calls); the memoize and left-recursion wrappers
   including how early exits leave them; tracer callbacks; the per-call
   ParseGlobal.  No proofs here. *)
From PegV Require Import Utf8 State Terminals Syntax Fields Literals.

(* ------------------------------------------------------------------ *)
(* values: what derive(Debug) shows of the generated types (Box is invisible) *)
Inductive value :=
| VUnit
| VChar (c : N)
| VStr (s : bytes)
| VNum (n : N)                              (* extern results of numeric type *)
| VNone
| VSome (v : value)
| VList (l : list value)
| VEnum (variant : name) (v : value)        (* Parsed_f::Variant(v) / Rule::Variant(v) *)
| VStruct (rule : name) (fields : list (name * value)) (pos : option (nat * nat)).

Definition fields := list (name * value).

Inductive panic_site :=
| PanicIndex            (* as_bytes()[0] / overrun / unwrap in the runtime *)
| PanicSplit            (* advance off a char boundary (hook assertion) *)
| PanicShape            (* a template received a representation it cannot consume *)
| PanicUncompilable     (* the grammar is rejected (or diverges) at compile time *)
| PanicUndefinedRule.   (* reference to a rule that does not exist (rustc error) *)

Inductive mres (A : Type) :=
| MOk (v : A) (st : pstate)
| MErr (e : perr)
| MPanic (p : panic_site)
| MFuel.
Arguments MOk {A}. Arguments MErr {A}. Arguments MPanic {A}. Arguments MFuel {A}.

(* tracer callbacks *)
Inductive tev :=
| TStart (rule : name) (o : nat)      (* print_trace_start(&state, name) *)
| TResOk (o : nat)                    (* print_trace_result(&Ok(..)) *)
| TResErr (e : perr)                  (* print_trace_result(&Err(..)) *)
| TInfo (k : nat).                    (* print_informative: 0 "Cache hit", 1 "Cache hit (left recursive)",
                                         2 "Starting new left recursive loop" *)

Inductive cached := COk (v : value) (st : pstate) | CErr (e : perr).

(* decision points of rule.rs, regenerated from the source:
   memo_closed   : the memoize wrapper evaluates the rule body inside its own
                   closure, so the body's `?`/`return Err` reach the insert
   leftrec_closed: same for the left-recursion wrapper *)
Record rule_cfg := { memo_closed : bool; leftrec_closed : bool; insens_guard : bool }.

Section Model.
Variable ustate : Type.

Record hooks := {
  h_check : list name -> value -> ustate -> bool * ustate;
  h_check_char : list name -> N -> bool;
  h_extern : list name -> bytes -> ustate -> (value * nat + name) * ustate
}.

Record glob := {
  g_cache : list (name * nat * cached);
  g_trace : list tev;                (* newest first *)
  g_user : ustate;
  g_evals : list (name * nat);       (* ghost: memoized-body evaluations started, newest first *)
  g_fails : list perr                (* ghost: every failed attempt, newest first *)
}.

Variable scfg : state_cfg.
Variable tcfg : term_cfg.
Variable fcfg : fields_cfg.
Variable rcfg : rule_cfg.
Variable hk : hooks.
Variable g : grammar.

Definition R (A : Type) := (mres A * glob)%type.

Definition init_glob (u : ustate) : glob :=
  {| g_cache := []; g_trace := []; g_user := u; g_evals := []; g_fails := [] |}.

Definition trace (e : tev) (gl : glob) : glob :=
  {| g_cache := g_cache gl; g_trace := e :: g_trace gl; g_user := g_user gl;
     g_evals := g_evals gl; g_fails := g_fails gl |}.
Definition log_fail (e : perr) (gl : glob) : glob :=
  {| g_cache := g_cache gl; g_trace := g_trace gl; g_user := g_user gl;
     g_evals := g_evals gl; g_fails := e :: g_fails gl |}.
Definition log_eval (k : name * nat) (gl : glob) : glob :=
  {| g_cache := g_cache gl; g_trace := g_trace gl; g_user := g_user gl;
     g_evals := k :: g_evals gl; g_fails := g_fails gl |}.
Definition set_user (u : ustate) (gl : glob) : glob :=
  {| g_cache := g_cache gl; g_trace := g_trace gl; g_user := u;
     g_evals := g_evals gl; g_fails := g_fails gl |}.

Fixpoint cache_get (n : name) (k : nat) (c : list (name * nat * cached)) : option cached :=
  match c with
  | [] => None
  | (n', k', v) :: r => if name_eqb n n' && Nat.eqb k k' then Some v else cache_get n k r
  end.
(* HashMap::insert: the newest binding shadows *)
Definition cache_put (n : name) (k : nat) (v : cached) (gl : glob) : glob :=
  {| g_cache := (n, k, v) :: g_cache gl; g_trace := g_trace gl; g_user := g_user gl;
     g_evals := g_evals gl; g_fails := g_fails gl |}.

Definition of_cached (c : cached) : mres value :=
  match c with COk v st => MOk v st | CErr e => MErr e end.

(* a fresh failure at st: `Err(state.report_error(sp))` *)
Definition fail_at {A} (st : pstate) (sp : specifics) (gl : glob) : R A :=
  (MErr (report_error scfg st sp), log_fail {| e_pos := off st; e_spec := sp |} gl).

Definition lift_t {A B} (f : A -> B) (sp : specifics) (st : pstate) (r : tres A) (gl : glob) : R B :=
  match r with
  | TOk v st' => (MOk (f v) st', gl)
  | TErr e => (MErr e, log_fail {| e_pos := off st; e_spec := sp |} gl)
  | TPanic => (MPanic PanicIndex, gl)
  | TSplit => (MPanic PanicSplit, gl)
  end.

(* ------------------------------------------------------------------ *)
(* field plumbing *)

Fixpoint lookup (n : name) (fs : fields) : option value :=
  match fs with
  | [] => None
  | (n', v) :: r => if name_eqb n n' then Some v else lookup n r
  end.

Fixpoint update (n : name) (v : value) (fs : fields) : fields :=
  match fs with
  | [] => []
  | (n', v') :: r => if name_eqb n n' then (n', v) :: r else (n', v') :: update n v r
  end.

(* choice.rs generate_default_field / optional.rs Default::default() *)
Definition default_of (a : arity) : option value :=
  match a with
  | One => None                      (* panic!("Outer field .. cannot be One") *)
  | Optional => Some VNone
  | Multiple => Some (VList [])
  end.

(* field.rs generate_postprocess_calls *)
Definition postprocess (rule_fields : list fdesc) (fname typ : name) (v : value) : option fields :=
  match find_fd fname rule_fields with
  | None => None                     (* expect("Field not found in rule_fields") *)
  | Some fd =>
    let v1 := match fd_types fd with
              | _ :: _ :: _ => VEnum typ v
              | _ => v
              end in
    let v2 := match fd_arity fd with
              | One => v1
              | Optional => VSome v1
              | Multiple => VList [v1]
              end in
    Some [(fname, v2)]
  end.

(* sequence.rs: first occurrence binds, later ones `extend` *)
Fixpoint seq_merge_vals (acc new : fields) : option fields :=
  match new with
  | [] => Some acc
  | (n, v) :: r =>
    match lookup n acc with
    | None => seq_merge_vals (acc ++ [(n, v)]) r
    | Some (VList a) =>
      match v with
      | VList b => seq_merge_vals (update n (VList (a ++ b)) acc) r
      | _ => None
      end
    | Some _ => None
    end
  end.

(* order a binding set as the (filtered) rule fields *)
Fixpoint order_as (fds : list fdesc) (fs : fields) : option fields :=
  match fds with
  | [] => Some []
  | fd :: r =>
    match lookup (fd_name fd) fs, order_as r fs with
    | Some v, Some rest => Some ((fd_name fd, v) :: rest)
    | _, _ => None
    end
  end.

(* choice.rs generate_result_converter *)
Fixpoint convert_arm (fds : list fdesc) (inner : list fdesc) (fs : fields) : option fields :=
  match fds with
  | [] => Some []
  | fd :: r =>
    let v := if has_fd (fd_name fd) inner then lookup (fd_name fd) fs
             else default_of (fd_arity fd) in
    match v, convert_arm r inner fs with
    | Some v, Some rest => Some ((fd_name fd, v) :: rest)
    | _, _ => None
    end
  end.

Fixpoint defaults (fds : list fdesc) : option fields :=
  match fds with
  | [] => Some []
  | fd :: r =>
    match default_of (fd_arity fd), defaults r with
    | Some v, Some rest => Some ((fd_name fd, v) :: rest)
    | _, _ => None
    end
  end.

Definition empty_vecs (fds : list fdesc) : fields := map (fun fd => (fd_name fd, VList [])) fds.

(* closure.rs: `#name.extend(__result.#name)` for each field *)
Fixpoint extend_all (acc : fields) (new : fields) : option fields :=
  match acc with
  | [] => Some []
  | (n, VList a) :: r =>
    match lookup n new, extend_all r new with
    | Some (VList b), Some rest => Some ((n, VList (a ++ b)) :: rest)
    | _, _ => None
    end
  | _ => None
  end.

(* ------------------------------------------------------------------ *)
(* compile-time facts the parser code depends on *)

Fixpoint expr_size (e : expr) : nat :=
  match e with
  | EChoice l => S (fold_right (fun x a => expr_size x + a) 0 l)
  | ESeq l => S (fold_right (fun x a => expr_size x + a) 0 l)
  | EGroup b | EOptional b | EClosure b _ | ENeg b | EPos b => S (expr_size b)
  | _ => 1
  end.

Definition grammar_size (gr : grammar) : nat :=
  fold_right (fun r a => match r with GRule r => expr_size (r_def r) | _ => 1 end + a) 0 gr.

(* enough for every get_fields call on a grammar with acyclic includes *)
Definition gf_fuel : nat := S (grammar_size g).

Record ectx := { c_skip : bool; c_fields : list fdesc }.

Definition filt (ctx : ectx) (e : expr) : option (list fdesc) :=
  filtered_fields fcfg gf_fuel g (c_fields ctx) e.

Definition own_fields (e : expr) : option (list fdesc) :=
  match get_fields fcfg gf_fuel g e with GFOk l => Some l | _ => None end.

Fixpoint join_names (l : list name) : name :=
  match l with
  | [] => []
  | [x] => x
  | x :: r => x ++ [58; 58]%N ++ join_names r
  end.

(* ------------------------------------------------------------------ *)
(* the evaluators, tied by fuel *)

Definition expr_eval := ectx -> expr -> pstate -> glob -> R fields.
Definition rule_eval := name -> pstate -> glob -> R value.
Definition loop_eval := ectx -> expr -> bool -> pstate -> nat -> fields -> glob -> R fields.
Definition grow_eval := rule -> pstate -> cached -> glob -> R value.

Record evals := { ev_expr : expr_eval; ev_rule : rule_eval; ev_loop : loop_eval; ev_grow : grow_eval }.

Section Step.
Variable ev : evals.
Notation re := (ev_expr ev).
Notation rr := (ev_rule ev).
Notation rl := (ev_loop ev).
Notation rg := (ev_grow ev).

(* common.rs generate_skip_ws *)
Definition with_ws {A} (ctx : ectx) (st : pstate) (gl : glob) (k : pstate -> glob -> R A) : R A :=
  if c_skip ctx then
    match rr n_Whitespace st gl with
    | (MOk _ st', gl') => k st' gl'
    | (MErr e, gl') => (MErr e, gl')
    | (MPanic p, gl') => (MPanic p, gl')
    | (MFuel, gl') => (MFuel, gl')
    end
  else k st gl.

Definition no_fields {A} (r : R A) : R fields :=
  match r with
  | (MOk _ st, gl) => (MOk [] st, gl)
  | (MErr e, gl) => (MErr e, gl)
  | (MPanic p, gl) => (MPanic p, gl)
  | (MFuel, gl) => (MFuel, gl)
  end.

Definition run_lit (m : lit_matcher) (st : pstate) (gl : glob) : R unit :=
  match m with
  | LMChar c => lift_t (fun _ => tt) (ExpectedCharacter c) st (parse_character_literal scfg tcfg st c) gl
  | LMStr s => lift_t (fun _ => tt) (ExpectedString (encode_str s)) st (parse_string_literal scfg st (encode_str s)) gl
  | LMIChar c => lift_t (fun _ => tt) (ExpectedCharacter c) st (parse_character_literal_insensitive scfg tcfg st c) gl
  | LMIStr s => lift_t (fun _ => tt) (ExpectedString (encode_str s)) st (parse_string_literal_insensitive scfg tcfg st (encode_str s)) gl
  end.

(* ChoiceHelper: .choice(..) for each arm, then .end() *)
Fixpoint choice_loop (ctx : ectx) (fds : list fdesc) (alts : list expr) (cst : pstate) (gl : glob) : R fields :=
  match alts with
  | [] => (MErr (report_farthest_error cst), gl)
  | a :: rest =>
    match re ctx a cst gl with
    | (MOk fs st', gl') =>
      match own_fields a with
      | None => (MPanic PanicUncompilable, gl')
      | Some inner =>
        match convert_arm fds inner fs with
        | Some out => (MOk out st', gl')
        | None => (MPanic PanicShape, gl')
        end
      end
    | (MErr e, gl') => choice_loop ctx fds rest (record_error scfg cst e) gl'
    | (MPanic p, gl') => (MPanic p, gl')
    | (MFuel, gl') => (MFuel, gl')
    end
  end.

Fixpoint seq_loop (ctx : ectx) (fds : list fdesc) (parts : list expr) (st : pstate) (acc : fields) (gl : glob) : R fields :=
  match parts with
  | [] =>
    match order_as fds acc with
    | Some out => (MOk out st, gl)
    | None => (MPanic PanicShape, gl)
    end
  | p :: ps =>
    match re ctx p st gl with
    | (MOk fs st', gl') =>
      match seq_merge_vals acc fs with
      | Some acc' => seq_loop ctx fds ps st' acc' gl'
      | None => (MPanic PanicShape, gl')
      end
    | (MErr e, gl') => (MErr e, gl')
    | (MPanic p', gl') => (MPanic p', gl')
    | (MFuel, gl') => (MFuel, gl')
    end
  end.

Definition expr_step : expr_eval := fun ctx e st gl =>
  match e with
  | EField fn boxed typ =>
    let r := with_ws ctx st gl (fun st gl => rr typ st gl) in
    match fname_of fn with
    | None => no_fields r                                    (* .discard_result() *)
    | Some n =>
      match r with
      | (MOk v st', gl') =>
        match postprocess (c_fields ctx) n typ v with
        | Some fs => (MOk fs st', gl')
        | None => (MPanic PanicShape, gl')
        end
      | (MErr e, gl') => (MErr e, gl')
      | (MPanic p, gl') => (MPanic p, gl')
      | (MFuel, gl') => (MFuel, gl')
      end
    end
  | ELit ins body =>
    match compile_lit (insens_guard rcfg) ins body with
    | LOk m => no_fields (with_ws ctx st gl (run_lit m))
    | _ => (MPanic PanicUncompilable, gl)
    end
  | ERange from to =>
    match compile_range from to with
    | RgOk a b =>
      no_fields (with_ws ctx st gl (fun st gl =>
        lift_t (fun _ => tt) (ExpectedCharacterRange a b) st (parse_character_range scfg tcfg st a b) gl))
    | _ => (MPanic PanicUncompilable, gl)
    end
  | EEoi =>
    no_fields (with_ws ctx st gl (fun st gl =>
      lift_t (fun _ => tt) ExpectedEoi st (parse_end_of_input scfg st) gl))
  | EGroup b => re ctx b st gl
  | EInclude n =>
    match find_rule g n with
    | Some r => re ctx (r_def r) st gl
    | None => (MPanic PanicUncompilable, gl)
    end
  | EChoice alts =>
    match alts with
    | [] => (MPanic PanicUncompilable, gl)                   (* self.choices[0] *)
    | [a] => re ctx a st gl
    | _ =>
      match filt ctx e with
      | Some fds => choice_loop ctx fds alts st gl
      | None => (MPanic PanicUncompilable, gl)
      end
    end
  | ESeq parts =>
    match parts with
    | [] => (MOk [] st, gl)
    | [p] => re ctx p st gl
    | _ =>
      match filt ctx e with
      | Some fds => seq_loop ctx fds parts st [] gl
      | None => (MPanic PanicUncompilable, gl)
      end
    end
  | EOptional b =>
    match re ctx b st gl with
    | (MOk fs st', gl') => (MOk fs st', gl')
    | (MErr e, gl') =>
      match filt ctx b with
      | None => (MPanic PanicUncompilable, gl')
      | Some fds =>
        match defaults fds with
        | Some d => (MOk d (record_error scfg st e), gl')
        | None => (MPanic PanicShape, gl')
        end
      end
    | (MPanic p, gl') => (MPanic p, gl')
    | (MFuel, gl') => (MFuel, gl')
    end
  | EClosure b plus =>
    match filt ctx b with
    | Some fds => rl ctx b plus st 0 (empty_vecs fds) gl
    | None => (MPanic PanicUncompilable, gl)
    end
  | ENeg b =>
    match re ctx b st gl with
    | (MOk _ _, gl') => fail_at st NegativeLookaheadFailed gl'
    | (MErr _, gl') => (MOk [] st, gl')
    | (MPanic p, gl') => (MPanic p, gl')
    | (MFuel, gl') => (MFuel, gl')
    end
  | EPos b =>
    match re ctx b st gl with
    | (MOk _ _, gl') => (MOk [] st, gl')
    | (MErr e, gl') => (MErr e, gl')
    | (MPanic p, gl') => (MPanic p, gl')
    | (MFuel, gl') => (MFuel, gl')
    end
  end.

(* closure.rs: the loop *)
Definition loop_step : loop_eval := fun ctx b plus st iters acc gl =>
  match re ctx b st gl with
  | (MOk fs st', gl') =>
    match extend_all acc fs with
    | Some acc' => rl ctx b plus st' (S iters) acc' gl'
    | None => (MPanic PanicShape, gl')
    end
  | (MErr e, gl') =>
    let st2 := record_error scfg st e in
    if plus && Nat.eqb iters 0 then (MErr (report_farthest_error st2), gl')
    else (MOk acc st2, gl')
  | (MPanic p, gl') => (MPanic p, gl')
  | (MFuel, gl') => (MFuel, gl')
  end.

(* rule.rs generate_check_calls *)
Fixpoint run_checks (cs : list (list name)) (v : value) (st' : pstate) (gl : glob) : R value :=
  match cs with
  | [] => (MOk v st', gl)
  | f :: r =>
    let '(ok, u) := h_check hk f v (g_user gl) in
    let gl1 := set_user u gl in
    if ok then run_checks r v st' gl1
    else fail_at st' (CheckFunctionFailed (join_names f)) gl1
  end.

(* the rule body proper: generate_string_rule / generate_override_rule_* /
   generate_normal_rule, followed by the check calls *)
Definition rule_body (r : rule) (st : pstate) (gl : glob) : R value :=
  let fl := flags_of (r_directives r) in
  match get_fields fcfg gf_fuel g (r_def r) with
  | GFOk rf =>
    let ctx := {| c_skip := negb (fl_no_skip_ws fl); c_fields := rf |} in
    match re ctx (r_def r) st gl with
    | (MOk fs st', gl') =>
      let ov :=
        if fl_string fl then
          let s := VStr (slice_until st st') in
          Some (if fl_position fl
                then VStruct (r_name r) [(n_string, s)] (Some (range_until st st'))
                else s)
        else
          match rf with
          | [fd] =>
            if name_eqb (fd_name fd) n_override then lookup n_override fs
            else Some (VStruct (r_name r) fs (if fl_position fl then Some (range_until st st') else None))
          | _ => Some (VStruct (r_name r) fs (if fl_position fl then Some (range_until st st') else None))
          end in
      match ov with
      | Some v => run_checks (checks_of (r_directives r)) v st' gl'
      | None => (MPanic PanicShape, gl')
      end
    | (MErr e, gl') => (MErr e, gl')
    | (MPanic p, gl') => (MPanic p, gl')
    | (MFuel, gl') => (MFuel, gl')
    end
  | _ => (MPanic PanicUncompilable, gl)
  end.

(* generate_memoized_body, left_recursive branch: one turn of `loop { .. }` *)
Definition grow_step : grow_eval := fun r st best gl =>
  let gl1 := trace (TInfo 2) gl in
  match rule_body r st gl1 with
  | (MOk v st', gl2) =>
    match best with
    | COk _ bst =>
      if is_further_than scfg st' bst
      then rg r st (COk v st') (cache_put (r_name r) (off st) (COk v st') gl2)
      else (of_cached best, gl2)
    | CErr _ => rg r st (COk v st') (cache_put (r_name r) (off st) (COk v st') gl2)
    end
  | (MErr e, gl2) =>
    if leftrec_closed rcfg then
      match best with
      | COk _ _ => (of_cached best, gl2)
      | CErr _ => (MErr e, cache_put (r_name r) (off st) (CErr e) gl2)
      end
    else (MErr e, gl2)          (* the body's `?` left the enclosing closure *)
  | (MPanic p, gl2) => (MPanic p, gl2)
  | (MFuel, gl2) => (MFuel, gl2)
  end.

(* generate_memoized_body *)
Definition memo_wrap (r : rule) (st : pstate) (gl : glob) : R value :=
  let fl := flags_of (r_directives r) in
  if fl_left_recursive fl then
    match cache_get (r_name r) (off st) (g_cache gl) with
    | Some c => (of_cached c, trace (TInfo 1) gl)
    | None =>
      let sentinel := CErr (report_error scfg st LeftRecursionSentinel) in
      rg r st sentinel (cache_put (r_name r) (off st) sentinel gl)
    end
  else if fl_memoize fl then
    match cache_get (r_name r) (off st) (g_cache gl) with
    | Some c => (of_cached c, trace (TInfo 0) gl)
    | None =>
      match rule_body r st (log_eval (r_name r, off st) gl) with
      | (MOk v st', gl') => (MOk v st', cache_put (r_name r) (off st) (COk v st') gl')
      | (MErr e, gl') =>
        if memo_closed rcfg then (MErr e, cache_put (r_name r) (off st) (CErr e) gl')
        else (MErr e, gl')      (* early exit skipped the insert *)
      | other => other
      end
    end
  else rule_body r st gl.

(* char_rule.rs *)
Fixpoint char_checks (nm : name) (cs : list (list name)) (c : N) : bool :=
  match cs with
  | [] => true
  | f :: r => if h_check_char hk f c then char_checks nm r c else false
  end.

Fixpoint char_parts (nm : name) (ps : list char_part) (st : pstate) (gl : glob) : R value :=
  match ps with
  | [] => fail_at st (ExpectedCharacterClass nm) gl
  | CPChar i :: r =>
    match decode_item i with
    | DOk c =>
      match parse_character_literal scfg tcfg st c with
      | TOk v st' => (MOk (VChar v) st', gl)
      | TErr _ => char_parts nm r st gl
      | TPanic => (MPanic PanicIndex, gl)
      | TSplit => (MPanic PanicSplit, gl)
      end
    | _ => (MPanic PanicUncompilable, gl)
    end
  | CPRange a b :: r =>
    match compile_range a b with
    | RgOk x y =>
      match parse_character_range scfg tcfg st x y with
      | TOk v st' => (MOk (VChar v) st', gl)
      | TErr _ => char_parts nm r st gl
      | TPanic => (MPanic PanicIndex, gl)
      | TSplit => (MPanic PanicSplit, gl)
      end
    | _ => (MPanic PanicUncompilable, gl)
    end
  | CPIdent n :: r =>
    match rr n st gl with
    | (MOk v st', gl') => (MOk v st', gl')
    | (MErr _, gl') => char_parts nm r st gl'
    | (MPanic p, gl') => (MPanic p, gl')
    | (MFuel, gl') => (MFuel, gl')
    end
  end.

Definition char_rule_body (r : char_rule) (st : pstate) (gl : glob) : R value :=
  let go := char_parts (cr_name r) (cr_choices r) st gl in
  match cr_checks r with
  | [] => go
  | cs =>
    match rest st with
    | [] => fail_at st (ExpectedCharacterClass (cr_name r)) gl
    | _ =>
      match decode1 (rest st) with
      | Some (c, _) =>
        if char_checks (cr_name r) cs c then go
        else fail_at st (ExpectedCharacterClass (cr_name r)) gl
      | None => (MPanic PanicIndex, gl)
      end
    end
  end.

(* extern_rule.rs *)
Definition extern_rule_body (r : extern_rule) (st : pstate) (gl : glob) : R value :=
  let '(res, u) := h_extern hk (er_function r) (rest st) (g_user gl) in
  let gl1 := set_user u gl in
  match res with
  | inl (v, n) =>
    match advance_safe st n with
    | AOk st' => (MOk v st', gl1)
    | AOverrun => (MPanic PanicIndex, gl1)
    | ASplit => (MPanic PanicSplit, gl1)
    end
  | inr msg => fail_at st (ExternRuleFailed msg) gl1
  end.

(* `parse_<name>(state, global)` *)
Definition rule_step : rule_eval := fun n st gl =>
  match find_grule g n with
  | Some (GRule r) =>
    let gl1 := trace (TStart (r_name r) (off st)) gl in
    match memo_wrap r st gl1 with
    | (MOk v st', gl2) => (MOk v st', trace (TResOk (off st')) gl2)
    | (MErr e, gl2) => (MErr e, trace (TResErr e) gl2)
    | other => other
    end
  | Some (GChar r) => char_rule_body r st gl
  | Some (GExtern r) => extern_rule_body r st gl
  | None =>
    if name_eqb n n_char then lift_t VChar ExpectedAnyCharacter st (parse_char scfg st) gl
    else if name_eqb n n_Whitespace then lift_t (fun _ => VUnit) OtherError st (parse_Whitespace st) gl
    else (MPanic PanicUndefinedRule, gl)
  end.

Definition step : evals :=
  {| ev_expr := expr_step; ev_rule := rule_step; ev_loop := loop_step; ev_grow := grow_step |}.

End Step.

Definition ev_bottom : evals :=
  {| ev_expr := fun _ _ _ gl => (MFuel, gl);
     ev_rule := fun _ _ gl => (MFuel, gl);
     ev_loop := fun _ _ _ _ _ _ gl => (MFuel, gl);
     ev_grow := fun _ _ _ gl => (MFuel, gl) |}.

Fixpoint run (fuel : nat) : evals :=
  match fuel with
  | O => ev_bottom
  | S f => step (run f)
  end.

(* PegParserAdvanced::parse_advanced on an exported rule: a fresh state and a
   fresh ParseGlobal (empty cache, new tracer) for every call *)
Definition m_parse (fuel : nat) (rule_name : name) (input : bytes) (u : ustate) : R value :=
  ev_rule (run fuel) rule_name (init_state input) (init_glob u).

End Model.

Arguments MOk {A}. Arguments MErr {A}. Arguments MPanic {A}. Arguments MFuel {A}.
Arguments h_check {ustate}. Arguments h_check_char {ustate}. Arguments h_extern {ustate}.
Arguments g_cache {ustate}. Arguments g_trace {ustate}. Arguments g_user {ustate}.
Arguments g_evals {ustate}. Arguments g_fails {ustate}.
Arguments ev_expr {ustate}. Arguments ev_rule {ustate}. Arguments ev_loop {ustate}. Arguments ev_grow {ustate}.
