(* get_fields: fuel monotonicity and the parent/child relations ("dominance")
   used by the simulation: the descriptors of a node dominate those of its
   children, duplicated names in a sequence are Multiple, names missing from
   an alternative are at least Optional. *)
From Coq Require Import Lia.
From PegV Require Import Utf8 State Syntax Fields FieldsFacts.

Section GF.
Variable c : fields_cfg.
Hypothesis Hc : fcfg_sound c = true.
Variable g : grammar.

Definition sub (lc lp : list fdesc) : Prop :=
  forall n a, arity_of n lc = Some a -> exists a', arity_of n lp = Some a' /\ ge_arity a' a = true.

Lemma sub_refl l : sub l l.
Proof. intros n a H. exists a. split; [exact H | apply ge_arity_refl]. Qed.

Lemma sub_trans a b d : sub a b -> sub b d -> sub a d.
Proof.
  intros H1 H2 n x Hx. destruct (H1 _ _ Hx) as [y [Hy Gy]]. destruct (H2 _ _ Hy) as [z [Hz Gz]].
  exists z. split; [exact Hz | eapply ge_arity_trans; eauto].
Qed.

Lemma sub_nil l : sub [] l.
Proof. intros n a H. discriminate. Qed.

(* ---------- gf_seq -------------------------------------------------------- *)

Lemma gf_seq_ext (gf1 gf2 : expr -> gf_res) ps : forall all l,
  (forall e l, In e ps -> gf1 e = GFOk l -> gf2 e = GFOk l) ->
  gf_seq c gf1 ps all = GFOk l -> gf_seq c gf2 ps all = GFOk l.
Proof.
  induction ps as [|p ps IH]; intros all l H E; cbn in *; [exact E|].
  destruct (gf1 p) as [new| |] eqn:G1; try discriminate.
  rewrite (H p new (or_introl eq_refl) G1). apply IH; auto.
Qed.

Lemma gf_seq_parts_ok gf ps : forall all res,
  gf_seq c gf ps all = GFOk res -> forall p, In p ps -> exists new, gf p = GFOk new.
Proof.
  induction ps as [|q ps IH]; intros all res E p Hin; [destruct Hin|].
  cbn in E. destruct (gf q) as [new| |] eqn:G; try discriminate.
  destruct Hin as [<-|Hin]; [eauto|]. eapply IH; eauto.
Qed.

Lemma gf_seq_old gf ps : forall all res n a,
  gf_seq c gf ps all = GFOk res -> arity_of n all = Some a ->
  exists a', arity_of n res = Some a' /\ ge_arity a' a = true.
Proof.
  induction ps as [|p ps IH]; intros all res n a E H; cbn in E.
  - injection E as <-. exists a. split; [exact H|apply ge_arity_refl].
  - destruct (gf p) as [new| |] eqn:G; try discriminate.
    destruct (seq_merge_old c Hc n new all a H) as [a0 [H0 G0]].
    destruct (IH _ _ _ _ E H0) as [a1 [H1 G1]].
    exists a1. split; [exact H1 | eapply ge_arity_trans; eauto].
Qed.

Lemma gf_seq_sub gf ps : forall all res p new,
  gf_seq c gf ps all = GFOk res -> In p ps -> gf p = GFOk new -> sub new res.
Proof.
  induction ps as [|q ps IH]; intros all res p new E Hin G; [destruct Hin|].
  cbn in E. destruct (gf q) as [nq| |] eqn:Gq; try discriminate.
  destruct Hin as [->|Hin].
  - rewrite G in Gq. injection Gq as <-.
    intros n a Hn. destruct (seq_merge_new c Hc n new all a Hn) as [a0 [H0 G0]].
    destruct (gf_seq_old _ _ _ _ _ _ E H0) as [a1 [H1 G1]].
    exists a1. split; [exact H1 | eapply ge_arity_trans; eauto].
  - eapply IH; eauto.
Qed.

(* a name already present that a later part defines again is Multiple *)
Lemma gf_seq_all_dup gf ps : forall all res q nq n a b,
  gf_seq c gf ps all = GFOk res -> arity_of n all = Some a ->
  In q ps -> gf q = GFOk nq -> arity_of n nq = Some b ->
  arity_of n res = Some Multiple.
Proof.
  induction ps as [|p ps IH]; intros all res q nq n a b E Ha Hin Gq Hb; [destruct Hin|].
  cbn in E. destruct (gf p) as [np| |] eqn:Gp; try discriminate.
  destruct Hin as [->|Hin].
  - rewrite Gq in Gp. injection Gp as <-.
    pose proof (seq_merge_both c Hc n nq all a b Ha Hb) as HM.
    destruct (gf_seq_old _ _ _ _ _ _ E HM) as [a1 [H1 G1]].
    apply ge_multiple in G1. subst. exact H1.
  - destruct (seq_merge_old c Hc n np all a Ha) as [a0 [H0 _]].
    eapply IH; eauto.
Qed.

(* a name defined by two parts at different positions is Multiple *)
Lemma gf_seq_dup gf l1 p l2 q l3 : forall all res np nq n a b,
  gf_seq c gf (l1 ++ p :: l2 ++ q :: l3) all = GFOk res ->
  gf p = GFOk np -> gf q = GFOk nq ->
  arity_of n np = Some a -> arity_of n nq = Some b ->
  arity_of n res = Some Multiple.
Proof.
  induction l1 as [|x l1 IH]; intros all res np nq n a b E Gp Gq Ha Hb.
  - cbn in E. rewrite Gp in E.
    destruct (seq_merge_new c Hc n np all a Ha) as [a0 [H0 _]].
    eapply gf_seq_all_dup; eauto. apply in_or_app. right. left. reflexivity.
  - cbn in E. destruct (gf x) as [nx| |] eqn:Gx; try discriminate.
    eapply IH; eauto.
Qed.

Lemma gf_seq_names gf ps : forall all res n,
  gf_seq c gf ps all = GFOk res -> has_fd n res = true ->
  has_fd n all = true \/ exists p new, In p ps /\ gf p = GFOk new /\ has_fd n new = true.
Proof.
  induction ps as [|p ps IH]; intros all res n E H; cbn in E.
  - injection E as <-. auto.
  - destruct (gf p) as [np| |] eqn:Gp; try discriminate.
    destruct (IH _ _ _ E H) as [H1|[q [nq [Hin [Gq Hq]]]]].
    + rewrite (seq_merge_names c Hc) in H1. apply orb_true_iff in H1. destruct H1 as [H1|H1]; [auto|].
      right. exists p, np. split; [left; reflexivity|auto].
    + right. exists q, nq. split; [right; exact Hin|auto].
Qed.

(* ---------- gf_choice ----------------------------------------------------- *)

Lemma gf_choice_ext (gf1 gf2 : expr -> gf_res) cs : forall first all l,
  (forall e l, In e cs -> gf1 e = GFOk l -> gf2 e = GFOk l) ->
  gf_choice c gf1 cs first all = GFOk l -> gf_choice c gf2 cs first all = GFOk l.
Proof.
  induction cs as [|p cs IH]; intros first all l H E; cbn in *; [exact E|].
  destruct (gf1 p) as [new| |] eqn:G1; try discriminate.
  rewrite (H p new (or_introl eq_refl) G1). apply IH; auto.
Qed.

Lemma gf_choice_parts_ok gf cs : forall first all res,
  gf_choice c gf cs first all = GFOk res -> forall p, In p cs -> exists new, gf p = GFOk new.
Proof.
  induction cs as [|q cs IH]; intros first all res E p Hin; [destruct Hin|].
  cbn in E. destruct (gf q) as [new| |] eqn:G; try discriminate.
  destruct Hin as [<-|Hin]; [eauto|]. eapply IH; eauto.
Qed.

Lemma gf_choice_old gf cs : forall first all res n a,
  gf_choice c gf cs first all = GFOk res -> arity_of n all = Some a ->
  exists a', arity_of n res = Some a' /\ ge_arity a' a = true.
Proof.
  induction cs as [|p cs IH]; intros first all res n a E H; cbn in E.
  - injection E as <-. exists a. split; [exact H|apply ge_arity_refl].
  - destruct (gf p) as [new| |] eqn:G; try discriminate.
    destruct (choice_merge_old c Hc first n all new a H) as [a0 [H0 [G0 _]]].
    destruct (IH _ _ _ _ _ E H0) as [a1 [H1 G1]].
    exists a1. split; [exact H1 | eapply ge_arity_trans; eauto].
Qed.

Lemma gf_choice_sub gf cs : forall first all res p new,
  gf_choice c gf cs first all = GFOk res -> In p cs -> gf p = GFOk new -> sub new res.
Proof.
  induction cs as [|q cs IH]; intros first all res p new E Hin G; [destruct Hin|].
  cbn in E. destruct (gf q) as [nq| |] eqn:Gq; try discriminate.
  destruct Hin as [->|Hin].
  - rewrite G in Gq. injection Gq as <-.
    intros n a Hn. destruct (choice_merge_new c Hc first n all new a Hn) as [a0 [H0 [G0 _]]].
    destruct (gf_choice_old _ _ _ _ _ _ _ E H0) as [a1 [H1 G1]].
    exists a1. split; [exact H1 | eapply ge_arity_trans; eauto].
  - eapply IH; eauto.
Qed.

(* every name introduced during a non-first run is at least Optional *)
Lemma gf_choice_late gf cs : forall all res n a,
  gf_choice c gf cs false all = GFOk res -> arity_of n all = None ->
  arity_of n res = Some a -> ge_arity a Optional = true.
Proof.
  induction cs as [|p cs IH]; intros all res n a E Hn Ha; cbn in E.
  - injection E as <-. congruence.
  - destruct (gf p) as [new| |] eqn:G; try discriminate.
    destruct (arity_of n new) as [b|] eqn:Hb.
    + destruct (choice_merge_new c Hc false n all new b Hb) as [a0 [H0 [_ O0]]].
      destruct (gf_choice_old _ _ _ _ _ _ _ E H0) as [a1 [H1 G1]].
      rewrite H1 in Ha. injection Ha as <-.
      eapply ge_arity_trans; [exact G1 | apply O0; auto].
    + eapply IH; eauto.
      apply has_fd_false. rewrite choice_merge_names; auto.
      apply has_fd_false in Hn. apply has_fd_false in Hb. rewrite Hn, Hb. reflexivity.
Qed.

(* a name the result has but the head alternative lacks is at least Optional *)
Lemma gf_choice_missing_head gf p cs : forall first all res new n a,
  (first = true -> all = []) ->
  gf_choice c gf (p :: cs) first all = GFOk res -> gf p = GFOk new ->
  arity_of n new = None -> arity_of n res = Some a -> ge_arity a Optional = true.
Proof.
  intros first all res new n a Hfirst E G Hn Ha. cbn in E. rewrite G in E.
  destruct (arity_of n all) as [b|] eqn:Hb.
  - assert (first = false) as ->.
    { destruct first; [|reflexivity]. rewrite (Hfirst eq_refl) in Hb. cbn in Hb. discriminate. }
    destruct (choice_merge_old c Hc false n all new b Hb) as [a0 [H0 [_ O0]]].
    destruct (gf_choice_old _ _ _ _ _ _ _ E H0) as [a1 [H1 G1]].
    rewrite H1 in Ha. injection Ha as <-.
    eapply ge_arity_trans; [exact G1 | apply O0; auto]. apply has_fd_false. exact Hn.
  - eapply gf_choice_late; eauto.
    apply has_fd_false. rewrite choice_merge_names; auto.
    apply has_fd_false in Hn. apply has_fd_false in Hb. rewrite Hn, Hb. reflexivity.
Qed.

Lemma gf_choice_missing gf pre p post : forall first all res new n a,
  (first = true -> all = []) ->
  gf_choice c gf (pre ++ p :: post) first all = GFOk res -> gf p = GFOk new ->
  arity_of n new = None -> arity_of n res = Some a -> ge_arity a Optional = true.
Proof.
  induction pre as [|x pre IH]; intros first all res new n a Hfirst E G Hn Ha.
  - eapply gf_choice_missing_head; eauto.
  - cbn in E. destruct (gf x) as [nx| |] eqn:Gx; try discriminate.
    eapply (IH false (choice_merge c first all nx)); [intro X; discriminate X | exact E | exact G | exact Hn | exact Ha].
Qed.

Lemma gf_choice_names gf cs : forall first all res n,
  gf_choice c gf cs first all = GFOk res -> has_fd n res = true ->
  has_fd n all = true \/ exists p new, In p cs /\ gf p = GFOk new /\ has_fd n new = true.
Proof.
  induction cs as [|p cs IH]; intros first all res n E H; cbn in E.
  - injection E as <-. auto.
  - destruct (gf p) as [np| |] eqn:Gp; try discriminate.
    destruct (IH _ _ _ _ E H) as [H1|[q [nq [Hin [Gq Hq]]]]].
    + rewrite choice_merge_names in H1; auto. apply orb_true_iff in H1. destruct H1 as [H1|H1]; [auto|].
      right. exists p, np. split; [left; reflexivity|auto].
    + right. exists q, nq. split; [right; exact Hin|auto].
Qed.

(* ---------- names are unique ------------------------------------------------ *)

Definition nodup_names (l : list fdesc) : Prop := NoDup (map fd_name l).

Lemma map_name_update n u l :
  (forall x, fd_name (u x) = fd_name x) -> map fd_name (update_fd n u l) = map fd_name l.
Proof.
  intro Hu. induction l as [|x l IH]; cbn; [reflexivity|].
  destruct (name_eqb (fd_name x) n); cbn; [rewrite Hu; reflexivity|rewrite IH; reflexivity].
Qed.

Lemma has_fd_in n l : has_fd n l = false -> ~ In n (map fd_name l).
Proof.
  unfold has_fd. induction l as [|x l IH]; cbn; [tauto|].
  destruct (name_eqb (fd_name x) n) eqn:E; [discriminate|].
  intros H [Hx|Hin]; [subst; rewrite name_eqb_refl in E; discriminate|]. apply IH; auto.
Qed.

Lemma NoDup_snoc {A} (l : list A) x : NoDup l -> ~ In x l -> NoDup (l ++ [x]).
Proof.
  induction l as [|y l IH]; intros ND Hn; cbn.
  - constructor; [intros []|constructor].
  - inversion ND as [|? ? Hy ND']; subst. constructor.
    + intro Hin. apply in_app_or in Hin. destruct Hin as [Hin|[->|[]]]; [contradiction|].
      apply Hn. left. reflexivity.
    + apply IH; auto. intro. apply Hn. right. auto.
Qed.

Lemma nodup_snoc l x : nodup_names l -> has_fd (fd_name x) l = false -> nodup_names (l ++ [x]).
Proof.
  unfold nodup_names. intros ND H. rewrite map_app. cbn.
  apply NoDup_snoc; [exact ND|]. apply has_fd_in. exact H.
Qed.

Lemma nodup_seq_merge new : forall all, nodup_names all -> nodup_names (seq_merge c all new).
Proof.
  induction new as [|nf new IH]; intros all ND; [exact ND|].
  rewrite seq_merge_fold. cbn [fold_left]. rewrite <- seq_merge_fold. apply IH.
  unfold seq_step. destruct (has_fd (fd_name nf) all) eqn:H.
  - unfold nodup_names. rewrite map_name_update; [exact ND|reflexivity].
  - apply nodup_snoc; auto.
Qed.

Lemma nodup_choice_merge first new all : nodup_names all -> nodup_names (choice_merge c first all new).
Proof.
  intro ND. rewrite choice_merge_fold.
  assert (ND1 : nodup_names (ch_pre c first all new)).
  { unfold ch_pre. destruct first; [exact ND|]. unfold nodup_names in *. rewrite map_map.
    erewrite map_ext; [exact ND|]. intro a. cbn. destruct (negb _); reflexivity. }
  generalize (ch_pre c first all new) ND1. clear ND ND1.
  induction new as [|nf new IH]; intros l ND; [exact ND|]. cbn [fold_left]. apply IH.
  unfold ch_step. destruct (has_fd (fd_name nf) l) eqn:H.
  - unfold nodup_names. rewrite map_name_update; [exact ND|reflexivity].
  - destruct first; apply nodup_snoc; auto.
Qed.

Lemma nodup_map_set h l : nodup_names l -> nodup_names (map (fun f => set_arity (h (fd_arity f)) f) l).
Proof. unfold nodup_names. rewrite map_map. cbn. auto. Qed.

Lemma gf_seq_nodup gf ps : forall all res,
  (forall p l, In p ps -> gf p = GFOk l -> nodup_names l) ->
  nodup_names all -> gf_seq c gf ps all = GFOk res -> nodup_names res.
Proof.
  induction ps as [|p ps IH]; intros all res Hp ND E; cbn in E.
  - injection E as <-. exact ND.
  - destruct (gf p) as [new| |] eqn:G; try discriminate.
    eapply IH; [| |exact E]; [intros; eapply Hp; eauto; right; auto|]. apply nodup_seq_merge. exact ND.
Qed.

Lemma gf_choice_nodup gf cs : forall first all res,
  nodup_names all -> gf_choice c gf cs first all = GFOk res -> nodup_names res.
Proof.
  induction cs as [|p cs IH]; intros first all res ND E; cbn in E.
  - injection E as <-. exact ND.
  - destruct (gf p) as [new| |] eqn:G; try discriminate.
    eapply IH; [|exact E]. apply nodup_choice_merge. exact ND.
Qed.

Lemma gf_nodup : forall f e l, get_fields c f g e = GFOk l -> nodup_names l.
Proof.
  induction f as [|f IH]; intros e l E; [discriminate|].
  cbn [get_fields] in E. destruct e.
  - eapply gf_choice_nodup; [|exact E]. constructor.
  - eapply gf_seq_nodup; [| |exact E]; [intros; eapply IH; eauto|constructor].
  - eapply IH; eauto.
  - destruct (get_fields c f g e) as [l0| |] eqn:G; try discriminate. injection E as <-.
    apply nodup_map_set. eapply IH; eauto.
  - destruct (get_fields c f g e) as [l0| |] eqn:G; try discriminate. injection E as <-.
    apply nodup_map_set. eapply IH; eauto.
  - destruct (get_fields c f g e) as [[|x l0]| |] eqn:G; try discriminate. injection E as <-. constructor.
  - destruct (get_fields c f g e) as [[|x l0]| |] eqn:G; try discriminate. injection E as <-. constructor.
  - injection E as <-. constructor.
  - injection E as <-. constructor.
  - injection E as <-. constructor.
  - destruct (find_rule g rule); [|discriminate]. eapply IH; eauto.
  - destruct (fname_of fname); injection E as <-; [|constructor].
    unfold nodup_names. cbn. constructor; [intros []|constructor].
Qed.

(* ---------- fuel ---------------------------------------------------------- *)

Lemma gf_mono : forall f e l, get_fields c f g e = GFOk l ->
  forall f', f <= f' -> get_fields c f' g e = GFOk l.
Proof.
  induction f as [|f IH]; intros e l E f' Hle; [discriminate|].
  destruct f' as [|f']; [lia|]. assert (Hle' : f <= f') by lia.
  cbn [get_fields] in *.
  destruct e.
  - eapply gf_choice_ext; [|exact E]. intros; eapply IH; eauto.
  - eapply gf_seq_ext; [|exact E]. intros; eapply IH; eauto.
  - eapply IH; eauto.
  - destruct (get_fields c f g e) as [l0| |] eqn:G; try discriminate.
    rewrite (IH _ _ G f' Hle'). exact E.
  - destruct (get_fields c f g e) as [l0| |] eqn:G; try discriminate.
    rewrite (IH _ _ G f' Hle'). exact E.
  - destruct (get_fields c f g e) as [l0| |] eqn:G; try discriminate.
    rewrite (IH _ _ G f' Hle'). exact E.
  - destruct (get_fields c f g e) as [l0| |] eqn:G; try discriminate.
    rewrite (IH _ _ G f' Hle'). exact E.
  - exact E.
  - exact E.
  - exact E.
  - destruct (find_rule g rule); [|exact E]. eapply IH; eauto.
  - exact E.
Qed.

Lemma gf_lift f e l : get_fields c f g e = GFOk l -> get_fields c (S f) g e = GFOk l.
Proof. intro H. eapply gf_mono; [exact H|lia]. Qed.

(* ---------- dominance ----------------------------------------------------- *)


Definition dom (F : nat) (rf : list fdesc) (e : expr) : Prop :=
  exists l, get_fields c F g e = GFOk l /\ sub l rf.


Lemma dom_group F rf b : dom F rf (EGroup b) -> dom F rf b.
Proof.
  intros [l [E S]]. destruct F as [|F']; [discriminate|]. cbn in E.
  exists l. split; [apply gf_lift; auto|exact S].
Qed.

Lemma dom_include F rf n r : dom F rf (EInclude n) -> find_rule g n = Some r -> dom F rf (r_def r).
Proof.
  intros [l [E S]] Hr. destruct F as [|F']; [discriminate|]. cbn in E. rewrite Hr in E.
  exists l. split; [apply gf_lift; auto|exact S].
Qed.

Lemma arity_of_map_set n h l :
  arity_of n (map (fun f => set_arity (h (fd_arity f)) f) l) =
  match arity_of n l with Some a => Some (h a) | None => None end.
Proof.
  unfold arity_of.
  pose proof (find_fd_map_arity n h (fun _ => true) l) as P. cbn in P. rewrite P.
  destruct (find_fd n l); reflexivity.
Qed.

Lemma dom_optional F rf b : dom F rf (EOptional b) ->
  exists lb, get_fields c F g b = GFOk lb /\ sub lb rf /\
    (forall n a, arity_of n lb = Some a -> exists a', arity_of n rf = Some a' /\ ge_arity a' Optional = true).
Proof.
  intros [l [E S]]. destruct F as [|F']; [discriminate|]. cbn in E.
  destruct (get_fields c F' g b) as [lb| |] eqn:G; try discriminate. injection E as <-.
  exists lb. split; [apply gf_lift; auto|].
  split.
  - intros n a Ha. destruct (S n (opt_arity c a)) as [a' [H' G']].
    { rewrite arity_of_map_set, Ha. reflexivity. }
    exists a'. split; [exact H'|]. eapply ge_arity_trans; [exact G'|apply opt_ge; auto].
  - intros n a Ha. destruct (S n (opt_arity c a)) as [a' [H' G']].
    { rewrite arity_of_map_set, Ha. reflexivity. }
    exists a'. split; [exact H'|]. eapply ge_arity_trans; [exact G'|apply opt_ge_optional; auto].
Qed.

Lemma dom_closure F rf b plus : dom F rf (EClosure b plus) ->
  exists lb, get_fields c F g b = GFOk lb /\ sub lb rf /\
    (forall n a, arity_of n lb = Some a -> arity_of n rf = Some Multiple).
Proof.
  intros [l [E S]]. destruct F as [|F']; [discriminate|]. cbn in E.
  destruct (get_fields c F' g b) as [lb| |] eqn:G; try discriminate. injection E as <-.
  exists lb. split; [apply gf_lift; auto|].
  assert (K : forall n a, arity_of n lb = Some a -> arity_of n rf = Some Multiple).
  { intros n a Ha. destruct (S n Multiple) as [a' [H' G']].
    { rewrite arity_of_map_set, Ha. rewrite clo_multiple; auto. }
    apply ge_multiple in G'. subst. exact H'. }
  split; [|exact K].
  intros n a Ha. exists Multiple. split; [eapply K; eauto|apply ge_multiple_any].
Qed.

Lemma dom_lookahead_neg F rf b : dom F rf (ENeg b) -> get_fields c F g b = GFOk [].
Proof.
  intros [l [E S]]. destruct F as [|F']; [discriminate|]. cbn in E.
  destruct (get_fields c F' g b) as [[|x lb]| |] eqn:G; try discriminate.
  apply gf_lift; auto.
Qed.

Lemma dom_lookahead_pos F rf b : dom F rf (EPos b) -> get_fields c F g b = GFOk [].
Proof.
  intros [l [E S]]. destruct F as [|F']; [discriminate|]. cbn in E.
  destruct (get_fields c F' g b) as [[|x lb]| |] eqn:G; try discriminate.
  apply gf_lift; auto.
Qed.

Lemma dom_seq F rf parts : dom F rf (ESeq parts) ->
  exists l, get_fields c F g (ESeq parts) = GFOk l /\ sub l rf /\
    (forall p, In p parts -> exists lp, get_fields c F g p = GFOk lp /\ sub lp l) /\
    (forall l1 p l2 q l3 lp lq n a b, parts = l1 ++ p :: l2 ++ q :: l3 ->
        get_fields c F g p = GFOk lp -> get_fields c F g q = GFOk lq -> arity_of n lp = Some a -> arity_of n lq = Some b ->
        arity_of n l = Some Multiple) /\
    (forall n, has_fd n l = true -> exists p lp, In p parts /\ get_fields c F g p = GFOk lp /\ has_fd n lp = true).
Proof.
  intros [l [E S]]. exists l. split; [exact E|]. split; [exact S|].
  destruct F as [|F']; [discriminate|]. cbn [get_fields] in E.
  assert (LIFT : forall p lp, get_fields c F' g p = GFOk lp -> get_fields c (Datatypes.S F') g p = GFOk lp).
  { intros. apply gf_lift; auto. }
  assert (DOWN : forall p lp, In p parts -> get_fields c (Datatypes.S F') g p = GFOk lp -> get_fields c F' g p = GFOk lp).
  { intros p lp Hin G. destruct (gf_seq_parts_ok _ _ _ _ E p Hin) as [new Gn].
    rewrite (LIFT _ _ Gn) in G. congruence. }
  split; [|split].
  - intros p Hin. destruct (gf_seq_parts_ok _ _ _ _ E p Hin) as [new Gn].
    exists new. split; [apply LIFT; exact Gn|]. eapply gf_seq_sub; eauto.
  - intros l1 p l2 q l3 lp lq n a b -> Gp Gq Ha Hb.
    assert (Hp : In p (l1 ++ p :: l2 ++ q :: l3)) by (apply in_or_app; right; left; reflexivity).
    assert (Hq : In q (l1 ++ p :: l2 ++ q :: l3))
      by (apply in_or_app; right; right; apply in_or_app; right; left; reflexivity).
    exact (gf_seq_dup _ l1 p l2 q l3 _ _ lp lq n a b E (DOWN _ _ Hp Gp) (DOWN _ _ Hq Gq) Ha Hb).
  - intros n Hn. destruct (gf_seq_names _ _ _ _ _ E Hn) as [H0|[p [new [Hin [Gp Hp]]]]]; [discriminate|].
    exists p, new. split; [exact Hin|]. split; [apply LIFT; exact Gp|exact Hp].
Qed.

Lemma dom_choice F rf alts : dom F rf (EChoice alts) ->
  exists l, get_fields c F g (EChoice alts) = GFOk l /\ sub l rf /\
    (forall p, In p alts -> exists lp, get_fields c F g p = GFOk lp /\ sub lp l) /\
    (forall p lp n a, In p alts -> get_fields c F g p = GFOk lp -> arity_of n lp = None ->
        arity_of n l = Some a -> ge_arity a Optional = true) /\
    (forall n, has_fd n l = true -> exists p lp, In p alts /\ get_fields c F g p = GFOk lp /\ has_fd n lp = true).
Proof.
  intros [l [E S]]. exists l. split; [exact E|]. split; [exact S|].
  destruct F as [|F']; [discriminate|]. cbn [get_fields] in E.
  assert (LIFT : forall p lp, get_fields c F' g p = GFOk lp -> get_fields c (Datatypes.S F') g p = GFOk lp).
  { intros. apply gf_lift; auto. }
  assert (DOWN : forall p lp, In p alts -> get_fields c (Datatypes.S F') g p = GFOk lp -> get_fields c F' g p = GFOk lp).
  { intros p lp Hin G. destruct (gf_choice_parts_ok _ _ _ _ _ E p Hin) as [new Gn].
    rewrite (LIFT _ _ Gn) in G. congruence. }
  split; [|split].
  - intros p Hin. destruct (gf_choice_parts_ok _ _ _ _ _ E p Hin) as [new Gn].
    exists new. split; [apply LIFT; exact Gn|]. eapply gf_choice_sub; eauto.
  - intros p lp n a Hin Gp Hn Ha.
    pose proof (DOWN _ _ Hin Gp) as Gp'.
    apply in_split in Hin. destruct Hin as [pre [post ->]].
    eapply (gf_choice_missing (get_fields c F' g) pre p post true [] l lp n a); auto.
  - intros n Hn. destruct (gf_choice_names _ _ _ _ _ _ E Hn) as [H0|[p [new [Hin [Gp Hp]]]]]; [discriminate|].
    exists p, new. split; [exact Hin|]. split; [apply LIFT; exact Gp|exact Hp].
Qed.

End GF.
