(* C04: on a valid UTF-8 input every state the model passes through is anchored
   in the input on a character boundary (rest = the suffix at `off`, both
   sides valid), every error position is such a boundary, and the model never
   reaches the panic sites of the runtime (index / overrun / split sequence).
   Instance of the generic invariant theorem (Inv.m_invariant), for every
   grammar (memoized and left-recursive rules included) and all hooks whose
   extern functions return a boundary length within the remaining input. *)
From Coq Require Import Lia.
From PegV Require Import Utf8 Utf8Facts State Terminals TerminalsSpec TerminalsOk Syntax Fields
  Literals Model Inv Spec ExternFacts.

Lemma valid_app a b : valid_utf8 a -> valid_utf8 b -> valid_utf8 (a ++ b).
Proof.
  intros [x [Hx ->]] [y [Hy ->]]. exists (x ++ y).
  split; [apply all_scalar_app; auto|symmetry; apply encode_str_app].
Qed.

Section Valid.
Variable ustate : Type.
Variable scfg : state_cfg.
Variable fcfg : fields_cfg.
Variable rcfg : rule_cfg.
Hypothesis Hguard : insens_guard rcfg = true.
Variable hk : hooks ustate.
Variable g : grammar.
Notation tcfg := term_cfg_expected.
Notation glb := (glob ustate).

(* extern functions return a byte length on a character boundary of what they were given *)
Definition ext_ok : Prop :=
  forall f bs u v n u', valid_utf8 bs -> h_extern hk f bs u = (inl (v, n), u') ->
    n <= length bs /\ is_boundary bs n = true.
Hypothesis Hext : ext_ok.

Variable input : bytes.

Definition okpos (p : nat) : Prop :=
  exists pre suf, input = pre ++ suf /\ length pre = p /\ valid_utf8 pre /\ valid_utf8 suf.

Definition anchored (st : pstate) : Prop :=
  exists pre, input = pre ++ rest st /\ length pre = off st /\ valid_utf8 pre /\ valid_utf8 (rest st).

Definition vst (st : pstate) : Prop := anchored st /\ (forall e, far st = Some e -> okpos (e_pos e)).
Definition vcached (c : cached) : Prop := match c with COk _ st => vst st | CErr e => okpos (e_pos e) end.
Definition vgl (gl : glb) : Prop := forall n k c, cache_get n k (g_cache gl) = Some c -> vcached c.

Lemma anchored_okpos st : anchored st -> okpos (off st).
Proof. intros [pre [E [L [V1 V2]]]]. exists pre, (rest st). auto. Qed.

Lemma vst_record st e : vst st -> okpos (e_pos e) -> vst (record_error scfg st e).
Proof.
  intros [A Fr] He. unfold record_error. destruct (far st) as [f|] eqn:Ef.
  - destruct (if rec_le scfg then _ else _).
    + split; [exact A|]. cbn. intros e0 H. injection H as <-. exact He.
    + split; [exact A|]. rewrite Ef. exact Fr.
  - split; [exact A|]. cbn. intros e0 H. injection H as <-. exact He.
Qed.

Lemma vst_farthest st : vst st -> okpos (e_pos (report_farthest_error st)).
Proof.
  intros [A Fr]. unfold report_farthest_error. destruct (far st) as [f|] eqn:Ef.
  - apply Fr. reflexivity.
  - cbn. apply anchored_okpos. exact A.
Qed.

(* what term_ok gives on an anchored state *)
Lemma term_ok_vst {A} (r : tres A) st cs t (val : list N -> A) sp :
  vst st -> rest st = encode_str cs -> all_scalar cs ->
  term_ok scfg r st cs t val sp ->
  match r with TOk _ st' => vst st' | TErr _ => True | TPanic => False | TSplit => False end.
Proof.
  intros [[pre [E [L [V1 V2]]]] Fr] Hr Hs H. unfold term_ok in H.
  destruct (term_match t cs) as [m|] eqn:TM; rewrite H; [|exact I].
  pose proof (term_match_prefix _ _ _ TM) as P.
  assert (Hm : all_scalar m /\ all_scalar (skipn (length m) cs)).
  { rewrite P in Hs. apply all_scalar_app in Hs. exact Hs. }
  destruct Hm as [Hm Hsk].
  split; [|exact Fr].
  exists (pre ++ encode_str m). cbn [after rest off].
  split; [rewrite E, Hr, <- app_assoc, <- encode_str_app, <- P; reflexivity|].
  split; [rewrite app_length, L; reflexivity|].
  split; [apply valid_app; [exact V1|apply valid_encode_str; exact Hm]|apply valid_encode_str; exact Hsk].
Qed.

Lemma vst_chars st : vst st -> exists cs, rest st = encode_str cs /\ all_scalar cs.
Proof. intros [[pre [_ [_ [_ [cs [Hs E]]]]]] _]. exists cs. auto. Qed.

Definition tp {A} (r : tres A) : Prop :=
  match r with TOk _ st' => vst st' | TErr _ => True | TPanic => true = false | TSplit => true = false end.

Lemma tp_of {A} (r : tres A) :
  match r with TOk _ st' => vst st' | TErr _ => True | TPanic => False | TSplit => False end -> tp r.
Proof. destruct r; cbn; tauto. Qed.

Theorem valid_invariant n nm st gl :
  vst st -> vgl gl ->
  match ev_rule (run ustate scfg tcfg fcfg rcfg hk g n) nm st gl with
  | (MOk _ st', gl') => vst st' /\ vgl gl'
  | (MErr e, gl') => okpos (e_pos e) /\ vgl gl'
  | (MPanic p, _) => p <> PanicIndex /\ p <> PanicSplit
  | (MFuel, _) => True
  end.
Proof.
  intros Hs Hg.
  pose proof (m_inv_rule ustate scfg tcfg fcfg rcfg hk g
                (fun _ st => vst st) (fun _ e => okpos (e_pos e)) vgl (fun _ _ => True) (fun _ _ => True) true) as M.
  assert (K : post ustate (fun _ st => vst st) (fun _ e => okpos (e_pos e)) vgl (fun _ _ => True) (fun _ _ => True) true gl
                   (ev_rule (run ustate scfg tcfg fcfg rcfg hk g n) nm st gl)).
  { apply M; clear M; try (intros; exact I); try (intros; assumption); auto.
    - intros gl0 st0 e H1 H2. apply vst_record; auto.
    - intros gl0 st0 H1. apply vst_farthest; auto.
    - intros gl0 st0 sp H1 H2. cbn. split; [exact H2|]. split; [exact I|]. apply anchored_okpos. apply H1.
    - intros gl0 st0 H1. cbn. apply anchored_okpos. apply H1.
    - intros gl0 n0 k c H1 H2. specialize (H1 _ _ _ H2). destruct c; exact H1.
    - intros gl0 n0 k c H1 H2. split; [|exact I]. intros n1 k1 c1 H3. cbn in H3.
      destruct (name_eqb n1 n0 && Nat.eqb k1 k); [injection H3 as <-; destruct c; exact H2|eapply H1; eauto].
    - intros gl0 st0 H1. destruct (vst_chars _ H1) as [cs [Er Hcs]].
      apply tp_of. eapply term_ok_vst; eauto. apply parse_char_ok; auto.
    - intros gl0 st0 H1. destruct (vst_chars _ H1) as [cs [Er Hcs]].
      apply tp_of. eapply term_ok_vst; eauto. apply parse_Whitespace_ok; auto.
    - intros gl0 st0 H1. destruct (vst_chars _ H1) as [cs [Er Hcs]].
      apply tp_of. eapply term_ok_vst; eauto. apply parse_end_of_input_ok; auto.
    - intros gl0 st0 s H1 H2. destruct (vst_chars _ H1) as [cs [Er Hcs]].
      apply tp_of. eapply term_ok_vst; eauto. apply parse_string_literal_ok; auto.
    - intros gl0 st0 c H1 H2. destruct (vst_chars _ H1) as [cs [Er Hcs]].
      apply tp_of. eapply term_ok_vst; eauto. apply parse_character_literal_ok; auto.
    - intros gl0 st0 a b H1 H2 H3. destruct (vst_chars _ H1) as [cs [Er Hcs]].
      apply tp_of. eapply term_ok_vst; eauto. apply parse_character_range_ok; auto.
    - intros gl0 st0 s H1 H2. destruct (vst_chars _ H1) as [cs [Er Hcs]].
      apply tp_of. eapply term_ok_vst; eauto.
      pose proof (H2 eq_refl) as Hl.
      assert (Es : encode_str s = s).
      { clear -Hl. induction Hl as [|c s [Hc _] _ IH]; [reflexivity|].
        rewrite encode_str_cons, encode_ascii, IH by exact Hc. reflexivity. }
      rewrite Es. apply parse_string_literal_insensitive_ok; auto.
    - intros gl0 st0 c H1 H2. destruct (vst_chars _ H1) as [cs [Er Hcs]]. destruct (H2 eq_refl) as [Ha Hl].
      apply tp_of. eapply term_ok_vst; eauto. apply parse_character_literal_insensitive_ok; auto.
    - intros gl0 st0 H1 Hne Hd. exfalso. destruct (vst_chars _ H1) as [cs [Er Hcs]].
      rewrite Er in *. destruct cs as [|c cs]; [apply Hne; reflexivity|].
      apply all_scalar_cons in Hcs. destruct Hcs as [Hc _].
      rewrite encode_str_cons, decode1_encode in Hd by exact Hc. discriminate.
    - intros gl0 r st0 H1 H2.
      destruct (h_extern hk (er_function r) (rest st0) (g_user gl0)) as [[[v k]|msg] u] eqn:X; cbn [fst]; [|exact I].
      destruct H1 as [[pre [E [L [V1 V2]]]] Fr].
      destruct (Hext _ _ _ _ _ _ V2 X) as [Hk Hb].
      unfold advance_safe, advance.
      replace (Nat.ltb (length (rest st0)) k) with false by (symmetry; apply Nat.ltb_ge; exact Hk).
      rewrite Hb.
      destruct V2 as [cs [Hcs Er]].
      destruct (boundary_split cs k Hcs) as [m [cs' [S1 [S2 S3]]]]; [rewrite <- Er; exact Hk|rewrite <- Er; exact Hb|].
      assert (Hm : all_scalar m /\ all_scalar cs') by (rewrite S2 in Hcs; apply all_scalar_app in Hcs; exact Hcs).
      destruct Hm as [Hm Hcs'].
      split; [|exact Fr]. exists (pre ++ encode_str m). cbn [rest off].
      assert (Esk : skipn k (rest st0) = encode_str cs').
      { rewrite Er, S2, encode_str_app, S3. apply skipn_app_exact. }
      rewrite Esk.
      split; [rewrite E, Er, S2, encode_str_app, app_assoc; reflexivity|].
      split; [rewrite app_length, L, S3; reflexivity|].
      split; [apply valid_app; [exact V1|apply valid_encode_str; exact Hm]|apply valid_encode_str; exact Hcs']. }
  destruct (ev_rule (run ustate scfg tcfg fcfg rcfg hk g n) nm st gl) as [[v st'|e|p|] gl']; cbn in K.
  - tauto.
  - tauto.
  - destruct K as [K _]. apply K. reflexivity.
  - exact I.
Qed.

End Valid.
