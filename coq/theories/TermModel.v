(* Termination carried from the specification to the model of the generated
   parser (plain grammars: the simulation relates the two at every bound), and
   the two documented ways a grammar can fail to be well-formed shown to make
   the specification diverge for every bound. *)
From Coq Require Import Lia.
From PegV Require Import Utf8 Utf8Facts State Terminals Syntax Fields FieldsFacts Literals Model Spec
  Sim Conform WellFormed Termination.

Section TM.
Variable ustate : Type.
Variable scfg : state_cfg.
Variable fcfg : fields_cfg.
Variable rcfg : rule_cfg.
Variable hk : hooks ustate.
Variable shk : shooks.
Variable g : grammar.

Theorem model_terminates :
  rec_le scfg = true -> fcfg_sound fcfg = true -> insens_guard rcfg = true ->
  pure_hooks ustate hk shk -> plain_grammar g ->
  forall nul rk, wf_check g nul rk = true ->
  forall rule_name cs u, all_scalar cs ->
  exists F, forall f, F <= f ->
    fst (m_parse ustate scfg term_cfg_expected fcfg rcfg hk g f rule_name (encode_str cs) u) <> MFuel /\
    s_parse fcfg shk g (insens_guard rcfg) f rule_name cs <> SFuel.
Proof.
  intros Hle Hf Hg Hp Hplain nul rk WF rule_name cs u Hs.
  destruct (spec_terminates fcfg shk g (insens_guard rcfg) nul rk WF rule_name cs) as (F & r & N & H).
  exists F. intros f Hge.
  pose proof (conform_converse ustate scfg fcfg rcfg hk shk g Hle Hf Hg Hp Hplain f rule_name cs u Hs) as C.
  cbn zeta in C. rewrite (H f Hge) in C. split; [|rewrite (H f Hge); exact N].
  destruct r as [v cs' o l|l| |].
  - destruct C as [[st' [E _]]|[p E]]; rewrite E; discriminate.
  - destruct C as [[e [E _]]|[p E]]; rewrite E; discriminate.
  - destruct C as [p E]. rewrite E. discriminate.
  - congruence.
Qed.

End TM.

(* the computed certificate *)
Theorem well_formed_terminates fcfg shk g insens :
  well_formed g = true ->
  forall rule_name cs,
    exists F r, r <> SFuel /\ forall f, F <= f -> s_parse fcfg shk g insens f rule_name cs = r.
Proof.
  intros W. unfold well_formed in W. exact (spec_terminates fcfg shk g insens _ _ W).
Qed.

(* ---- outside the quantifier: what the check rejects really diverges -------- *)

(* direct left recursion without @leftrec: the specification never returns *)
Lemma left_recursion_diverges fcfg shk g insens n r fn bx p2 alt2 :
  find_grule g n = Some (GRule r) ->
  fl_left_recursive (flags_of (r_directives r)) = false ->
  fl_no_skip_ws (flags_of (r_directives r)) = true ->
  r_def r = EChoice [ESeq [EField fn bx n; p2]; alt2] ->
  forall f cs o, sv_rule (srun fcfg shk g insens f) n cs o = SFuel.
Proof.
  intros Hf Hl Hn Hd. induction f as [f IH] using lt_wf_ind. intros cs o.
  destruct f as [|f]; [reflexivity|].
  cbn [srun sstep sv_rule]. unfold srule_step. rewrite Hf, Hl, Hn, Hd. cbn [negb].
  destruct f as [|f]; [reflexivity|].
  cbn [srun sstep sv_expr]. unfold sexpr_step at 1. cbn [s_choice].
  destruct f as [|f]; [reflexivity|].
  cbn [srun sstep sv_expr]. unfold sexpr_step at 1. cbn [s_seq].
  destruct f as [|f]; [reflexivity|].
  cbn [srun sstep sv_expr]. unfold sexpr_step at 1. unfold s_with_ws.
  rewrite (IH f) by lia. reflexivity.
Qed.

(* a closure whose body succeeds without consuming at some position never returns there *)
Lemma nullable_closure_diverges fcfg shk g insens b cs o :
  (forall f, (exists e1 l, sv_expr (srun fcfg shk g insens f) false b cs o = SOk e1 cs o l) \/
             sv_expr (srun fcfg shk g insens f) false b cs o = SFuel) ->
  forall f plus iters evs acc,
    sv_loop (srun fcfg shk g insens f) false b plus cs o iters evs acc = SFuel.
Proof.
  intros Hb. induction f as [|f IH]; intros plus iters evs acc; [reflexivity|].
  cbn [srun sstep sv_loop]. unfold sloop_step.
  destruct (Hb f) as [[e1 [l E]]|E]; rewrite E; [|reflexivity]. apply IH.
Qed.

Definition nmA : name := [65%N].

(* A = A 'x' | 'b'; *)
Definition g_leftrec : grammar :=
  [GRule {| r_directives := [DNoSkipWs]; r_name := nmA;
            r_def := EChoice [ESeq [EField FNone false nmA; ELit false [SIChar 120%N]];
                              ESeq [ELit false [SIChar 98%N]]] |}].

Example leftrec_not_well_formed : well_formed g_leftrec = false.
Proof. vm_compute. reflexivity. Qed.

Example leftrec_example_diverges fcfg shk insens : forall f cs,
  s_parse fcfg shk g_leftrec insens f nmA cs = SFuel.
Proof.
  intros f cs. unfold s_parse.
  eapply (left_recursion_diverges fcfg shk g_leftrec insens nmA); reflexivity.
Qed.

(* A = { ['a'] } 'b'; *)
Definition g_nullclo : grammar :=
  [GRule {| r_directives := [DNoSkipWs]; r_name := nmA;
            r_def := EChoice [ESeq [EClosure (EOptional (ELit false [SIChar 97%N])) false;
                                    ELit false [SIChar 98%N]]] |}].

Example nullclo_not_well_formed : well_formed g_nullclo = false.
Proof. vm_compute. reflexivity. Qed.

Example nullclo_example_diverges fcfg shk insens : forall f,
  s_parse fcfg shk g_nullclo insens f nmA [98%N] = SFuel.
Proof.
  intro f. unfold s_parse.
  destruct f as [|f]; [reflexivity|].
  cbn [srun sstep sv_rule]. unfold srule_step.
  replace (find_grule g_nullclo nmA) with (Some (GRule {| r_directives := [DNoSkipWs]; r_name := nmA;
            r_def := EChoice [ESeq [EClosure (EOptional (ELit false [SIChar 97%N])) false;
                                    ELit false [SIChar 98%N]]] |})) by reflexivity.
  cbn [r_directives flags_of has_dir existsb fl_left_recursive fl_no_skip_ws negb orb r_def].
  destruct f as [|f]; [reflexivity|].
  cbn [srun sstep sv_expr]. unfold sexpr_step at 1.
  destruct f as [|f]; [reflexivity|].
  cbn [srun sstep sv_expr]. unfold sexpr_step at 1. cbn [s_seq].
  destruct f as [|f]; [reflexivity|].
  cbn [srun sstep sv_expr]. unfold sexpr_step at 1.
  rewrite nullable_closure_diverges; [reflexivity|].
  intro k. destruct k as [|k]; [right; reflexivity|].
  destruct k as [|k]; [right; reflexivity|].
  left. eexists. eexists. vm_compute. reflexivity.
Qed.

(* the same grammars with the defect removed pass the check *)
Definition g_fixed : grammar :=
  [GRule {| r_directives := [DNoSkipWs]; r_name := nmA;
            r_def := EChoice [ESeq [ELit false [SIChar 98%N]; EClosure (ELit false [SIChar 120%N]) false]] |}].

Example fixed_well_formed : well_formed g_fixed = true.
Proof. vm_compute. reflexivity. Qed.
