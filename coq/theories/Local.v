(* Locality: the clean part of ANY grammar is its plain part.

   `unmark g` removes every @memoize and @leftrec marker.  For a set of rule names closed under
   reference that contains no marked rule (CleanFrame), the model of the generated parser of g and the
   model of the generated parser of `unmark g` do exactly the same on every expression over those names -
   the same result, the same state, the same global (cache, callbacks, user state, ghost logs), for every
   bound and stateful hooks: a marked rule elsewhere in the grammar cannot influence them.

   `unmark g` is a plain grammar, so everything proved for plain grammars against the specification S
   (Sim / Conform: acceptance, tree, consumed bytes, positions, reported error) holds for the clean part
   of every grammar - also of grammars with @memoize and @leftrec rules elsewhere (`clean_conforms`). *)
From Coq Require Import Lia.
From PegV Require Import Utf8 State Terminals Syntax Fields FieldsFacts Literals Model CleanFrame.

(* b = true: both kinds of marker are removed (`unmark`); b = false: only @leftrec (`unmark_lr`: a @memoize
   rule keeps its marker, and the walk goes through its cache wrapper, which is the same in both grammars) *)
Definition not_mark (b : bool) (d : directive) : bool :=
  match d with DLeftrec => false | DMemoize => negb b | _ => true end.
Definition unmark_rule (b : bool) (r : rule) : rule :=
  {| r_directives := filter (not_mark b) (r_directives r); r_name := r_name r; r_def := r_def r |}.
Definition unmark_grule (b : bool) (x : grule) : grule := match x with GRule r => GRule (unmark_rule b r) | y => y end.
Definition unmarkb (b : bool) (g : grammar) : grammar := map (unmark_grule b) g.
Notation unmark := (unmarkb true).
Notation unmark_lr := (unmarkb false).

Lemma has_dir_unmark b q ds : (b = true -> q DMemoize = false) -> q DLeftrec = false ->
  has_dir q (filter (not_mark b) ds) = has_dir q ds.
Proof.
  intros H1 H2. unfold has_dir. induction ds as [|d ds IH]; [reflexivity|]. cbn.
  destruct d; cbn; rewrite ?IH; try reflexivity.
  - destruct b; cbn; [rewrite (H1 eq_refl); exact IH|rewrite IH; reflexivity].
  - rewrite H2. reflexivity.
Qed.

Lemma flags_unmark b r :
  let f := flags_of (r_directives r) in let f' := flags_of (r_directives (unmark_rule b r)) in
  fl_no_skip_ws f' = fl_no_skip_ws f /\ fl_export f' = fl_export f /\ fl_string f' = fl_string f /\
  fl_position f' = fl_position f /\ fl_left_recursive f' = false /\
  fl_memoize f' = (if b then false else fl_memoize f).
Proof.
  cbn. repeat split; try (apply has_dir_unmark; [intros _; reflexivity|reflexivity]).
  - unfold has_dir. induction (r_directives r) as [|d ds IH]; [reflexivity|]. destruct d; cbn; auto.
    destruct b; cbn; auto.
  - destruct b.
    + unfold has_dir. induction (r_directives r) as [|d ds IH]; [reflexivity|]. destruct d; cbn; auto.
    + apply has_dir_unmark; [intro X; discriminate X|reflexivity].
Qed.

Lemma checks_unmark b r : checks_of (r_directives (unmark_rule b r)) = checks_of (r_directives r).
Proof.
  cbn. induction (r_directives r) as [|d ds IH]; [reflexivity|]. destruct d; cbn; rewrite ?IH; try reflexivity.
  destruct b; cbn; rewrite ?IH; reflexivity.
Qed.

Lemma grule_name_unmark b x : grule_name (unmark_grule b x) = grule_name x.
Proof. destruct x; reflexivity. Qed.

Lemma find_grule_unmark b g n : find_grule (unmarkb b g) n = option_map (unmark_grule b) (find_grule g n).
Proof.
  induction g as [|x g IH]; [reflexivity|]. cbn. rewrite grule_name_unmark.
  destruct (name_eqb (grule_name x) n); [reflexivity|exact IH].
Qed.

Lemma find_rule_unmark b g n : find_rule (unmarkb b g) n = option_map (unmark_rule b) (find_rule g n).
Proof.
  induction g as [|x g IH]; [reflexivity|]. destruct x as [r|c|e]; cbn; [|exact IH|exact IH].
  destruct (name_eqb (r_name r) n); [reflexivity|exact IH].
Qed.

Lemma get_fields_unmark b c g : forall F e, get_fields c F (unmarkb b g) e = get_fields c F g e.
Proof.
  induction F as [|F IH]; intro e; [reflexivity|]. cbn [get_fields].
  destruct e; try reflexivity; try (rewrite IH; reflexivity).
  - assert (K : forall l first all, gf_choice c (get_fields c F (unmarkb b g)) l first all = gf_choice c (get_fields c F g) l first all).
    { induction l as [|a l IHl]; intros; cbn; [reflexivity|]. rewrite IH. destruct (get_fields c F g a); auto. }
    apply K.
  - assert (K : forall l all, gf_seq c (get_fields c F (unmarkb b g)) l all = gf_seq c (get_fields c F g) l all).
    { induction l as [|a l IHl]; intros; cbn; [reflexivity|]. rewrite IH. destruct (get_fields c F g a); auto. }
    apply K.
  - rewrite find_rule_unmark. destruct (find_rule g rule); cbn; [apply IH|reflexivity].
Qed.

Lemma grammar_size_unmark b g : grammar_size (unmarkb b g) = grammar_size g.
Proof.
  unfold grammar_size. induction g as [|x g IH]; [reflexivity|].
  cbn [unmarkb map fold_right]. fold (unmarkb b g). rewrite IH. destruct x; reflexivity.
Qed.

Lemma unmark_plain g r : In (GRule r) (unmark g) ->
  fl_memoize (flags_of (r_directives r)) = false /\ fl_left_recursive (flags_of (r_directives r)) = false.
Proof.
  intro Hin. unfold unmarkb in Hin. apply in_map_iff in Hin. destruct Hin as [x [Hx Hin]].
  destruct x as [r0|c0|e0]; cbn in Hx; try discriminate. injection Hx as <-.
  destruct (flags_unmark true r0) as [_ [_ [_ [_ [F5 F6]]]]]. cbn zeta in *. split; assumption.
Qed.

Section Local.
Variable ustate : Type.
Variable scfg : state_cfg.
Variable tcfg : term_cfg.
Variable fcfg : fields_cfg.
Variable rcfg : rule_cfg.
Variable hk : hooks ustate.
Variable g : grammar.
Notation glb := (glob ustate).
Variable mb : bool.
Notation g' := (unmarkb mb g).

Variable clean : name -> bool.
(* a clean rule carries no @leftrec marker, and - when @memoize markers are removed too - no @memoize marker *)
Definition rule_cleanb (n : name) : Prop :=
  match find_grule g n with
  | Some (GRule r) =>
    fl_left_recursive (flags_of (r_directives r)) = false /\
    (mb = true -> fl_memoize (flags_of (r_directives r)) = false) /\
    eclean clean (r_def r) = true
  | Some (GChar r) => forallb (cp_clean clean) (cr_choices r) = true
  | _ => True
  end.
Hypothesis Hclean : forall n, clean n = true -> rule_cleanb n.
Hypothesis Hinc : forall n r, clean n = true -> find_rule g n = Some r -> eclean clean (r_def r) = true.
Hypothesis Hws : clean n_Whitespace = true.

Lemma filt_unmark ctx e : filt fcfg g' ctx e = filt fcfg g ctx e.
Proof. unfold filt, filtered_fields, gf_fuel. rewrite grammar_size_unmark, get_fields_unmark. reflexivity. Qed.
Lemma own_fields_unmark e : own_fields fcfg g' e = own_fields fcfg g e.
Proof. unfold own_fields, gf_fuel. rewrite grammar_size_unmark, get_fields_unmark. reflexivity. Qed.

Definition Lev (ev ev' : evals ustate) : Prop :=
  (forall ctx e st gl, eclean clean e = true -> ev_expr ev' ctx e st gl = ev_expr ev ctx e st gl) /\
  (forall n st gl, clean n = true -> ev_rule ev' n st gl = ev_rule ev n st gl) /\
  (forall ctx e plus st it acc gl, eclean clean e = true -> ev_loop ev' ctx e plus st it acc gl = ev_loop ev ctx e plus st it acc gl).

Section Step.
Variables ev ev' : evals ustate.
Hypothesis H : Lev ev ev'.
Let He := proj1 H.
Let Hr := proj1 (proj2 H).
Let Hl := proj2 (proj2 H).

Lemma L_with_ws {X} ctx st gl (k k' : pstate -> glb -> R ustate X) :
  (forall s x, k' s x = k s x) ->
  with_ws ustate ev' ctx st gl k' = with_ws ustate ev ctx st gl k.
Proof.
  intro Hk. unfold with_ws. destruct (c_skip ctx); [|apply Hk].
  rewrite (Hr n_Whitespace st gl Hws). destruct (ev_rule ev n_Whitespace st gl) as [[? ?|?|?|] ?]; try reflexivity. apply Hk.
Qed.

Lemma L_choice_loop ctx fds alts : lclean clean alts = true -> forall cst gl,
  choice_loop ustate scfg fcfg g' ev' ctx fds alts cst gl = choice_loop ustate scfg fcfg g ev ctx fds alts cst gl.
Proof.
  induction alts as [|x alts IH]; intros L cst gl; cbn [choice_loop]; [reflexivity|].
  rewrite lclean_cons in L. apply andb_prop in L. destruct L as [Lx La].
  rewrite (He ctx x cst gl Lx). rewrite own_fields_unmark.
  destruct (ev_expr ev ctx x cst gl) as [[? ?|?|?|] ?]; try reflexivity. apply (IH La).
Qed.

Lemma L_seq_loop ctx fds parts : lclean clean parts = true -> forall st acc gl,
  seq_loop ustate ev' ctx fds parts st acc gl = seq_loop ustate ev ctx fds parts st acc gl.
Proof.
  induction parts as [|x ps IH]; intros L st acc gl; cbn [seq_loop]; [reflexivity|].
  rewrite lclean_cons in L. apply andb_prop in L. destruct L as [Lx Lp].
  rewrite (He ctx x st gl Lx).
  destruct (ev_expr ev ctx x st gl) as [[fs s|?|?|] ?]; try reflexivity.
  destruct (seq_merge_vals acc fs); [apply (IH Lp)|reflexivity].
Qed.

Theorem L_expr ctx e st gl : eclean clean e = true ->
  expr_step ustate scfg tcfg fcfg rcfg g' ev' ctx e st gl = expr_step ustate scfg tcfg fcfg rcfg g ev ctx e st gl.
Proof.
  intros L. destruct e; cbn [expr_step].
  - rewrite eclean_choice in L. destruct alts as [|x [|y r]]; [reflexivity| |].
    + rewrite lclean_cons in L. apply andb_prop in L. apply He. exact (proj1 L).
    + rewrite filt_unmark. destruct (filt fcfg g ctx (EChoice (x :: y :: r))); [apply L_choice_loop; exact L|reflexivity].
  - rewrite eclean_seq in L. destruct parts as [|x [|y r]]; [reflexivity| |].
    + rewrite lclean_cons in L. apply andb_prop in L. apply He. exact (proj1 L).
    + rewrite filt_unmark. destruct (filt fcfg g ctx (ESeq (x :: y :: r))); [apply L_seq_loop; exact L|reflexivity].
  - apply He. exact L.
  - cbn [eclean] in L. rewrite (He ctx e st gl L). rewrite filt_unmark. reflexivity.
  - cbn [eclean] in L. rewrite filt_unmark. destruct (filt fcfg g ctx e); [apply Hl; exact L|reflexivity].
  - cbn [eclean] in L. rewrite (He ctx e st gl L). reflexivity.
  - cbn [eclean] in L. rewrite (He ctx e st gl L). reflexivity.
  - destruct (compile_range from to); try reflexivity. f_equal. apply L_with_ws. reflexivity.
  - destruct (compile_lit (insens_guard rcfg) insensitive body); try reflexivity. f_equal. apply L_with_ws. reflexivity.
  - f_equal. apply L_with_ws. reflexivity.
  - cbn [eclean] in L. rewrite find_rule_unmark. destruct (find_rule g rule) as [r|] eqn:Fr; cbn [option_map]; [|reflexivity].
    cbn [unmark_rule r_def]. apply He. exact (Hinc rule r L Fr).
  - cbn [eclean] in L.
    assert (P : with_ws ustate ev' ctx st gl (fun st gl => ev_rule ev' typ st gl) =
                with_ws ustate ev ctx st gl (fun st gl => ev_rule ev typ st gl)).
    { apply L_with_ws. intros s x. apply Hr. exact L. }
    rewrite P. reflexivity.
Qed.

Theorem L_loop ctx e plus st it acc gl : eclean clean e = true ->
  loop_step ustate scfg ev' ctx e plus st it acc gl = loop_step ustate scfg ev ctx e plus st it acc gl.
Proof.
  intro L. unfold loop_step. rewrite (He ctx e st gl L).
  destruct (ev_expr ev ctx e st gl) as [[fs s|?|?|] ?]; try reflexivity.
  destruct (extend_all acc fs); [apply Hl; exact L|reflexivity].
Qed.

Lemma L_char_parts nm ps : forallb (cp_clean clean) ps = true -> forall st gl,
  char_parts ustate scfg tcfg ev' nm ps st gl = char_parts ustate scfg tcfg ev nm ps st gl.
Proof.
  induction ps as [|pt ps IH]; intros L st gl; cbn [char_parts]; [reflexivity|].
  cbn [forallb] in L. apply andb_prop in L. destruct L as [Lp Lr]. destruct pt as [i|x y|n].
  - destruct (decode_item i); try reflexivity. destruct (parse_character_literal scfg tcfg st a); try reflexivity. apply (IH Lr).
  - destruct (compile_range x y); try reflexivity. destruct (parse_character_range scfg tcfg st a b); try reflexivity. apply (IH Lr).
  - cbn [cp_clean] in Lp. rewrite (Hr n st gl Lp). destruct (ev_rule ev n st gl) as [[? ?|?|?|] ?]; try reflexivity. apply (IH Lr).
Qed.

Lemma L_rule_body r st gl : eclean clean (r_def r) = true ->
  rule_body ustate scfg fcfg hk g' ev' (unmark_rule mb r) st gl = rule_body ustate scfg fcfg hk g ev r st gl.
Proof.
  intro H3. destruct (flags_unmark mb r) as [F1 [_ [F3 [F4 _]]]]. cbn zeta in *.
  unfold rule_body. cbn [unmark_rule r_def r_name]. rewrite checks_unmark.
  unfold gf_fuel. rewrite grammar_size_unmark, get_fields_unmark. fold (gf_fuel g).
  change (flags_of (filter (not_mark mb) (r_directives r))) with (flags_of (r_directives (unmark_rule mb r))).
  rewrite F1, F3, F4.
  destruct (get_fields fcfg (gf_fuel g) g (r_def r)) as [rf| |]; try reflexivity.
  rewrite (He _ (r_def r) st _ H3). reflexivity.
Qed.

Theorem L_rule n st gl : clean n = true ->
  rule_step ustate scfg tcfg fcfg rcfg hk g' ev' n st gl = rule_step ustate scfg tcfg fcfg rcfg hk g ev n st gl.
Proof.
  intro L. unfold rule_step. rewrite find_grule_unmark. pose proof (Hclean n L) as Hc. unfold rule_cleanb in Hc.
  destruct (find_grule g n) as [[r|r|r]|]; cbn [option_map unmark_grule].
  - destruct Hc as [H1 [H2 H3]]. destruct (flags_unmark mb r) as [_ [_ [_ [_ [F5 F6]]]]]. cbn zeta in *.
    cbn [unmark_rule r_name]. unfold memo_wrap.
    change (flags_of (filter (not_mark mb) (r_directives r))) with (flags_of (r_directives (unmark_rule mb r))).
    rewrite H1, F5, F6.
    assert (FM : (if mb then false else fl_memoize (flags_of (r_directives r))) = fl_memoize (flags_of (r_directives r))).
    { destruct mb; [symmetry; exact (H2 eq_refl)|reflexivity]. }
    rewrite FM. cbn [unmark_rule r_name].
    destruct (fl_memoize (flags_of (r_directives r))).
    + destruct (cache_get (r_name r) (off st) (g_cache (trace ustate (TStart (r_name r) (off st)) gl))); [reflexivity|].
      rewrite (L_rule_body r st _ H3). reflexivity.
    + rewrite (L_rule_body r st _ H3). reflexivity.
  - unfold char_rule_body. rewrite (L_char_parts (cr_name r) (cr_choices r) Hc st gl). reflexivity.
  - reflexivity.
  - reflexivity.
Qed.

End Step.

Theorem local n : Lev (run ustate scfg tcfg fcfg rcfg hk g n) (run ustate scfg tcfg fcfg rcfg hk g' n).
Proof.
  induction n as [|n IH].
  - split; [|split]; intros; reflexivity.
  - split; [|split]; intros; cbn [run step ev_expr ev_rule ev_loop].
    + apply L_expr; assumption.
    + apply L_rule; assumption.
    + apply L_loop; assumption.
Qed.

(* the parse of a clean rule does not see the markers of the rest of the grammar *)
Corollary clean_parse_unmarked fuel rule_name input u :
  clean rule_name = true ->
  m_parse ustate scfg tcfg fcfg rcfg hk g fuel rule_name input u =
  m_parse ustate scfg tcfg fcfg rcfg hk g' fuel rule_name input u.
Proof. intro L. unfold m_parse. symmetry. exact (proj1 (proj2 (local fuel)) rule_name _ _ L). Qed.

End Local.
