(* Facts about the field/arity computation (Fields.v): fuel monotonicity,
   names, and "arity monotonicity": the arity a field gets at a node is at
   least the arity it has in every sub-expression, it is Multiple when the
   field occurs in two parts of a sequence or under a closure, and at least
   Optional when an alternative of a choice lacks it or it sits in an
   optional.  All for any arity tables satisfying `fcfg_sound` (checked by
   computation for the tables regenerated from the source). *)
From PegV Require Import Utf8 State Syntax Fields.

Lemma name_eqb_refl a : name_eqb a a = true.
Proof. induction a as [|x a IH]; cbn; [reflexivity|]. rewrite N.eqb_refl, IH. reflexivity. Qed.

Lemma name_eqb_eq a b : name_eqb a b = true <-> a = b.
Proof.
  revert b. induction a as [|x a IH]; intros [|y b]; cbn; try (split; discriminate); [tauto|].
  rewrite andb_true_iff, N.eqb_eq, IH. split; [intros [-> ->]; reflexivity|intro E; injection E; auto].
Qed.

Lemma name_eqb_sym a b : name_eqb a b = name_eqb b a.
Proof.
  destruct (name_eqb a b) eqn:E.
  - apply name_eqb_eq in E. subst. symmetry. apply name_eqb_refl.
  - destruct (name_eqb b a) eqn:E2; [|reflexivity].
    apply name_eqb_eq in E2. subst. rewrite name_eqb_refl in E. discriminate.
Qed.

Lemma name_eqb_neq a b : name_eqb a b = false <-> a <> b.
Proof.
  split.
  - intros E ->. rewrite name_eqb_refl in E. discriminate.
  - intro H. destruct (name_eqb a b) eqn:E; [|reflexivity]. apply name_eqb_eq in E. contradiction.
Qed.

Definition ge_arity (a b : arity) : bool :=
  match a, b with
  | Multiple, _ => true
  | Optional, One | Optional, Optional => true
  | One, One => true
  | _, _ => false
  end.

Lemma ge_arity_refl a : ge_arity a a = true.
Proof. destruct a; reflexivity. Qed.

Lemma ge_arity_trans a b c : ge_arity a b = true -> ge_arity b c = true -> ge_arity a c = true.
Proof. destruct a, b, c; cbn; auto. Qed.

Lemma ge_multiple a : ge_arity a Multiple = true -> a = Multiple.
Proof. destruct a; cbn; congruence. Qed.

Definition all_arities := [One; Optional; Multiple].

Definition fcfg_sound (c : fields_cfg) : bool :=
  forallb (fun a =>
    forallb (fun b => ge_arity (combine_arity c a b) a && ge_arity (combine_arity c a b) b) all_arities
    && ge_arity (opt_arity c a) a && ge_arity (opt_arity c a) Optional
    && arity_eqb (clo_arity c a) Multiple
    && ge_arity (choice_missing c a) a && ge_arity (choice_missing c a) Optional
    && ge_arity (choice_new c a) a && ge_arity (choice_new c a) Optional) all_arities
  && arity_eqb (seq_dup_arity c) Multiple.

Example fcfg_doc_sound : fcfg_sound fields_cfg_doc = true.
Proof. reflexivity. Qed.

Section Facts.
Variable c : fields_cfg.
Hypothesis Hc : fcfg_sound c = true.

Lemma arity_eqb_eq a b : arity_eqb a b = true -> a = b.
Proof. destruct a, b; cbn; congruence. Qed.

Ltac sound_cases :=
  unfold fcfg_sound, all_arities in Hc; cbn [forallb] in Hc;
  repeat (apply andb_true_iff in Hc; destruct Hc as [Hc ?]);
  repeat match goal with H : _ && _ = true |- _ => apply andb_true_iff in H; destruct H end.

Lemma combine_ge_l a b : ge_arity (combine_arity c a b) a = true.
Proof. sound_cases. destruct a, b; assumption. Qed.
Lemma combine_ge_r a b : ge_arity (combine_arity c a b) b = true.
Proof. sound_cases. destruct a, b; assumption. Qed.
Lemma opt_ge a : ge_arity (opt_arity c a) a = true.
Proof. sound_cases. destruct a; assumption. Qed.
Lemma opt_ge_optional a : ge_arity (opt_arity c a) Optional = true.
Proof. sound_cases. destruct a; assumption. Qed.
Lemma clo_multiple a : clo_arity c a = Multiple.
Proof. sound_cases. destruct a; apply arity_eqb_eq; assumption. Qed.
Lemma seq_dup_multiple : seq_dup_arity c = Multiple.
Proof. sound_cases. apply arity_eqb_eq; assumption. Qed.
Lemma missing_ge a : ge_arity (choice_missing c a) a = true.
Proof. sound_cases. destruct a; assumption. Qed.
Lemma missing_ge_optional a : ge_arity (choice_missing c a) Optional = true.
Proof. sound_cases. destruct a; assumption. Qed.
Lemma new_ge a : ge_arity (choice_new c a) a = true.
Proof. sound_cases. destruct a; assumption. Qed.
Lemma new_ge_optional a : ge_arity (choice_new c a) Optional = true.
Proof. sound_cases. destruct a; assumption. Qed.

(* ---------- descriptor lists ------------------------------------------- *)

Definition arity_of (n : name) (l : list fdesc) : option arity :=
  match find_fd n l with Some f => Some (fd_arity f) | None => None end.

Lemma has_fd_arity n l : has_fd n l = true <-> exists a, arity_of n l = Some a.
Proof.
  unfold has_fd, arity_of. destruct (find_fd n l); split; try discriminate; eauto.
  intros [a H]. discriminate.
Qed.

Lemma has_fd_false n l : has_fd n l = false <-> arity_of n l = None.
Proof. unfold has_fd, arity_of. destruct (find_fd n l); split; congruence. Qed.

Lemma find_fd_name n l f : find_fd n l = Some f -> fd_name f = n.
Proof.
  induction l as [|x l IH]; cbn; [discriminate|].
  destruct (name_eqb (fd_name x) n) eqn:E; [|auto].
  intro H. injection H as <-. apply name_eqb_eq. exact E.
Qed.

Lemma find_fd_in n l f : find_fd n l = Some f -> In f l.
Proof.
  induction l as [|x l IH]; cbn; [discriminate|].
  destruct (name_eqb (fd_name x) n); [intro H; injection H as <-; auto | auto].
Qed.

Lemma find_fd_app n a b :
  find_fd n (a ++ b) = match find_fd n a with Some f => Some f | None => find_fd n b end.
Proof.
  induction a as [|x a IH]; cbn; [reflexivity|].
  destruct (name_eqb (fd_name x) n); auto.
Qed.

Lemma arity_of_app n a b :
  arity_of n (a ++ b) = match arity_of n a with Some x => Some x | None => arity_of n b end.
Proof. unfold arity_of. rewrite find_fd_app. destruct (find_fd n a); reflexivity. Qed.

Lemma find_fd_update_same n u l f :
  (forall x, fd_name (u x) = fd_name x) ->
  find_fd n l = Some f -> find_fd n (update_fd n u l) = Some (u f).
Proof.
  intros Hu. induction l as [|x l IH]; cbn; [discriminate|].
  destruct (name_eqb (fd_name x) n) eqn:E.
  - intro H. injection H as <-. cbn. rewrite Hu, E. reflexivity.
  - intro H. cbn. rewrite E. auto.
Qed.

Lemma find_fd_update_other n m u l :
  (forall x, fd_name (u x) = fd_name x) -> m <> n ->
  find_fd m (update_fd n u l) = find_fd m l.
Proof.
  intros Hu Hne. induction l as [|x l IH]; cbn; [reflexivity|].
  destruct (name_eqb (fd_name x) n) eqn:E.
  - cbn. rewrite Hu. apply name_eqb_eq in E. rewrite E.
    replace (name_eqb n m) with false by (symmetry; apply name_eqb_neq; auto). reflexivity.
  - cbn. destruct (name_eqb (fd_name x) m); auto.
Qed.

Lemma update_fd_none n u l : find_fd n l = None -> update_fd n u l = l.
Proof.
  induction l as [|x l IH]; cbn; [reflexivity|].
  destruct (name_eqb (fd_name x) n); [discriminate|]. intro H. rewrite IH; auto.
Qed.

Lemma find_fd_map_arity n (h : arity -> arity) (p : fdesc -> bool) l :
  find_fd n (map (fun f => if p f then set_arity (h (fd_arity f)) f else f) l) =
  match find_fd n l with
  | Some f => Some (if p f then set_arity (h (fd_arity f)) f else f)
  | None => None
  end.
Proof.
  induction l as [|x l IH]; cbn [map find_fd]; [reflexivity|].
  destruct (p x) eqn:P.
  - cbn [set_arity fd_name]. destruct (name_eqb (fd_name x) n) eqn:E.
    + rewrite P. reflexivity.
    + exact IH.
  - destruct (name_eqb (fd_name x) n) eqn:E.
    + rewrite P. reflexivity.
    + exact IH.
Qed.

(* ---------- seq_merge ---------------------------------------------------- *)

Definition seq_upd (nf : fdesc) (o : fdesc) : fdesc :=
  {| fd_name := fd_name o; fd_types := combine_types (fd_types o) (fd_types nf);
     fd_arity := seq_dup_arity c |}.

Definition seq_step (all : list fdesc) (nf : fdesc) : list fdesc :=
  if has_fd (fd_name nf) all then update_fd (fd_name nf) (seq_upd nf) all else all ++ [nf].

Lemma seq_merge_fold all new : seq_merge c all new = fold_left seq_step new all.
Proof. reflexivity. Qed.

Lemma seq_step_arity n all nf :
  arity_of n (seq_step all nf) =
  if name_eqb (fd_name nf) n
  then (match arity_of n all with Some _ => Some Multiple | None => Some (fd_arity nf) end)
  else arity_of n all.
Proof.
  unfold seq_step, arity_of, has_fd.
  destruct (name_eqb (fd_name nf) n) eqn:E.
  - apply name_eqb_eq in E. subst n.
    destruct (find_fd (fd_name nf) all) eqn:F.
    + erewrite find_fd_update_same; eauto. cbn. rewrite seq_dup_multiple. reflexivity.
    + rewrite find_fd_app, F. cbn. rewrite name_eqb_refl. reflexivity.
  - apply name_eqb_neq in E.
    destruct (find_fd (fd_name nf) all) eqn:F.
    + rewrite find_fd_update_other; auto.
    + rewrite find_fd_app. destruct (find_fd n all); [reflexivity|].
      cbn. replace (name_eqb (fd_name nf) n) with false by (symmetry; apply name_eqb_neq; auto). reflexivity.
Qed.

(* old entries keep or raise their arity; new ones enter with theirs or Multiple *)
Lemma ge_multiple_any a : ge_arity Multiple a = true.
Proof. destruct a; reflexivity. Qed.

Lemma seq_merge_old n new : forall all a,
  arity_of n all = Some a ->
  exists a', arity_of n (seq_merge c all new) = Some a' /\ ge_arity a' a = true.
Proof.
  induction new as [|nf new IH]; intros all a H.
  - exists a. split; [exact H | apply ge_arity_refl].
  - rewrite seq_merge_fold. cbn [fold_left]. rewrite <- seq_merge_fold.
    assert (exists a0, arity_of n (seq_step all nf) = Some a0 /\ ge_arity a0 a = true) as [a0 [H0 G0]].
    { rewrite seq_step_arity, H. destruct (name_eqb (fd_name nf) n); eexists; split; try reflexivity.
      apply ge_arity_refl. }
    destruct (IH _ _ H0) as [a1 [H1 G1]]. exists a1. split; [exact H1|]. eapply ge_arity_trans; eauto.
Qed.

Lemma seq_merge_new n new : forall all a,
  arity_of n new = Some a ->
  exists a', arity_of n (seq_merge c all new) = Some a' /\ ge_arity a' a = true.
Proof.
  induction new as [|nf new IH]; intros all a H; [discriminate|].
  rewrite seq_merge_fold. cbn [fold_left]. rewrite <- seq_merge_fold.
  unfold arity_of in H. cbn in H.
  destruct (name_eqb (fd_name nf) n) eqn:E.
  - injection H as <-.
    assert (exists a0, arity_of n (seq_step all nf) = Some a0 /\ ge_arity a0 (fd_arity nf) = true) as [a0 [H0 G0]].
    { rewrite seq_step_arity, E. destruct (arity_of n all); eexists; split; try reflexivity.
      apply ge_arity_refl. }
    destruct (seq_merge_old n new _ _ H0) as [a1 [H1 G1]].
    exists a1. split; [exact H1|]. eapply ge_arity_trans; eauto.
  - apply IH. unfold arity_of. exact H.
Qed.

Lemma seq_merge_both n new : forall all a b,
  arity_of n all = Some a -> arity_of n new = Some b ->
  arity_of n (seq_merge c all new) = Some Multiple.
Proof.
  induction new as [|nf new IH]; intros all a b Ha Hb; [discriminate|].
  rewrite seq_merge_fold. cbn [fold_left]. rewrite <- seq_merge_fold.
  unfold arity_of in Hb. cbn in Hb.
  destruct (name_eqb (fd_name nf) n) eqn:E.
  - assert (H0 : arity_of n (seq_step all nf) = Some Multiple).
    { rewrite seq_step_arity, E, Ha. reflexivity. }
    destruct (seq_merge_old n new _ _ H0) as [a1 [H1 G1]].
    apply ge_multiple in G1. subst. exact H1.
  - assert (H0 : arity_of n (seq_step all nf) = Some a).
    { rewrite seq_step_arity, E. exact Ha. }
    eapply IH; eauto.
Qed.

Lemma seq_merge_names n new : forall all,
  has_fd n (seq_merge c all new) = has_fd n all || has_fd n new.
Proof.
  induction new as [|nf new IH]; intros all.
  - cbn. rewrite orb_false_r. reflexivity.
  - rewrite seq_merge_fold. cbn [fold_left]. rewrite <- seq_merge_fold.
    rewrite IH.
    assert (has_fd n (seq_step all nf) = has_fd n all || name_eqb (fd_name nf) n) as ->.
    { pose proof (seq_step_arity n all nf) as S.
      destruct (name_eqb (fd_name nf) n) eqn:E.
      - rewrite orb_true_r. apply has_fd_arity. destruct (arity_of n all); eauto.
      - rewrite orb_false_r. unfold has_fd, arity_of in *.
        destruct (find_fd n (seq_step all nf)), (find_fd n all); congruence. }
    unfold has_fd at 4. cbn. destruct (name_eqb (fd_name nf) n); [rewrite orb_true_r; reflexivity|].
    rewrite orb_false_r. reflexivity.
Qed.

(* ---------- choice_merge ------------------------------------------------- *)

Definition ch_upd (nf : fdesc) (o : fdesc) : fdesc :=
  {| fd_name := fd_name o; fd_types := combine_types (fd_types o) (fd_types nf);
     fd_arity := combine_arity c (fd_arity o) (fd_arity nf) |}.

Definition ch_step (first : bool) (all : list fdesc) (nf : fdesc) : list fdesc :=
  if has_fd (fd_name nf) all then update_fd (fd_name nf) (ch_upd nf) all
  else if first then all ++ [nf]
  else all ++ [set_arity (choice_new c (fd_arity nf)) nf].

Definition ch_pre (first : bool) (all new : list fdesc) : list fdesc :=
  if first then all
  else map (fun f => if negb (has_fd (fd_name f) new)
                     then set_arity (choice_missing c (fd_arity f)) f else f) all.

Lemma choice_merge_fold first all new :
  choice_merge c first all new = fold_left (ch_step first) new (ch_pre first all new).
Proof. reflexivity. Qed.

Lemma ch_step_arity first n all nf :
  arity_of n (ch_step first all nf) =
  if name_eqb (fd_name nf) n
  then (match arity_of n all with
        | Some o => Some (combine_arity c o (fd_arity nf))
        | None => Some (if first then fd_arity nf else choice_new c (fd_arity nf))
        end)
  else arity_of n all.
Proof.
  unfold ch_step, arity_of, has_fd.
  destruct (name_eqb (fd_name nf) n) eqn:E.
  - apply name_eqb_eq in E. subst n.
    destruct (find_fd (fd_name nf) all) eqn:F.
    + erewrite find_fd_update_same; eauto. reflexivity.
    + destruct first; rewrite find_fd_app, F; cbn; rewrite name_eqb_refl; reflexivity.
  - apply name_eqb_neq in E.
    destruct (find_fd (fd_name nf) all) eqn:F.
    + rewrite find_fd_update_other; auto.
    + destruct first; rewrite find_fd_app; (destruct (find_fd n all); [reflexivity|]);
        cbn; replace (name_eqb (fd_name nf) n) with false by (symmetry; apply name_eqb_neq; auto);
        reflexivity.
Qed.

Lemma ch_fold_old first n new : forall all a,
  arity_of n all = Some a ->
  exists a', arity_of n (fold_left (ch_step first) new all) = Some a' /\ ge_arity a' a = true.
Proof.
  induction new as [|nf new IH]; intros all a H; cbn.
  - exists a. split; [exact H|apply ge_arity_refl].
  - assert (exists a0, arity_of n (ch_step first all nf) = Some a0 /\ ge_arity a0 a = true) as [a0 [H0 G0]].
    { rewrite ch_step_arity, H. destruct (name_eqb (fd_name nf) n); eexists; split; try reflexivity.
      - apply combine_ge_l.
      - apply ge_arity_refl. }
    destruct (IH _ _ H0) as [a1 [H1 G1]]. exists a1. split; [exact H1|]. eapply ge_arity_trans; eauto.
Qed.

Lemma ch_fold_new first n new : forall all a,
  arity_of n new = Some a ->
  exists a', arity_of n (fold_left (ch_step first) new all) = Some a' /\ ge_arity a' a = true /\
             (first = false -> arity_of n all = None -> ge_arity a' Optional = true).
Proof.
  induction new as [|nf new IH]; intros all a H; [discriminate|].
  cbn [fold_left]. unfold arity_of in H. cbn in H.
  destruct (name_eqb (fd_name nf) n) eqn:E.
  - injection H as <-.
    assert (exists a0, arity_of n (ch_step first all nf) = Some a0 /\ ge_arity a0 (fd_arity nf) = true /\
                       (first = false -> arity_of n all = None -> ge_arity a0 Optional = true)) as [a0 [H0 [G0 O0]]].
    { rewrite ch_step_arity, E. destruct (arity_of n all) eqn:A; eexists; split; try reflexivity; split.
      - apply combine_ge_r.
      - intros _ Hn. discriminate.
      - destruct first; [apply ge_arity_refl | apply new_ge].
      - intros -> _. apply new_ge_optional. }
    destruct (ch_fold_old first n new _ _ H0) as [a1 [H1 G1]].
    exists a1. split; [exact H1|]. split; [eapply ge_arity_trans; eauto|].
    intros Hf Hn. eapply ge_arity_trans; [exact G1 | apply O0; auto].
  - destruct (IH (ch_step first all nf) a) as [a1 [H1 [G1 O1]]]; [unfold arity_of; exact H|].
    exists a1. split; [exact H1|]. split; [exact G1|].
    intros Hf Hn. apply O1; auto. rewrite ch_step_arity, E. exact Hn.
Qed.

Lemma ch_pre_arity first n all new :
  arity_of n (ch_pre first all new) =
  match arity_of n all with
  | Some a => Some (if first then a else if has_fd n new then a else choice_missing c a)
  | None => None
  end.
Proof.
  unfold ch_pre, arity_of. destruct first; [destruct (find_fd n all); reflexivity|].
  rewrite (find_fd_map_arity n (choice_missing c) (fun f => negb (has_fd (fd_name f) new))).
  destruct (find_fd n all) eqn:F; [|reflexivity].
  apply find_fd_name in F. rewrite F. destruct (has_fd n new); reflexivity.
Qed.

Lemma choice_merge_old first n all new a :
  arity_of n all = Some a ->
  exists a', arity_of n (choice_merge c first all new) = Some a' /\ ge_arity a' a = true /\
             (first = false -> has_fd n new = false -> ge_arity a' Optional = true).
Proof.
  intro H. rewrite choice_merge_fold.
  pose proof (ch_pre_arity first n all new) as P. rewrite H in P.
  destruct (ch_fold_old first n new _ _ P) as [a1 [H1 G1]].
  exists a1. split; [exact H1|]. split.
  - eapply ge_arity_trans; [exact G1|]. destruct first; [apply ge_arity_refl|].
    destruct (has_fd n new); [apply ge_arity_refl | apply missing_ge].
  - intros -> Hn. rewrite Hn in G1. eapply ge_arity_trans; [exact G1 | apply missing_ge_optional].
Qed.

Lemma choice_merge_new first n all new a :
  arity_of n new = Some a ->
  exists a', arity_of n (choice_merge c first all new) = Some a' /\ ge_arity a' a = true /\
             (first = false -> arity_of n all = None -> ge_arity a' Optional = true).
Proof.
  intro H. rewrite choice_merge_fold.
  destruct (ch_fold_new first n new (ch_pre first all new) a H) as [a1 [H1 [G1 O1]]].
  exists a1. split; [exact H1|]. split; [exact G1|].
  intros Hf Hn. apply O1; auto. rewrite ch_pre_arity, Hn. reflexivity.
Qed.

Lemma ch_fold_names first n new : forall all,
  has_fd n (fold_left (ch_step first) new all) = has_fd n all || has_fd n new.
Proof.
  induction new as [|nf new IH]; intros all; cbn [fold_left].
  - cbn. rewrite orb_false_r. reflexivity.
  - rewrite IH.
    assert (has_fd n (ch_step first all nf) = has_fd n all || name_eqb (fd_name nf) n) as ->.
    { pose proof (ch_step_arity first n all nf) as S.
      destruct (name_eqb (fd_name nf) n) eqn:E.
      - rewrite orb_true_r. apply has_fd_arity. destruct (arity_of n all); eauto.
      - rewrite orb_false_r. unfold has_fd, arity_of in *.
        destruct (find_fd n (ch_step first all nf)), (find_fd n all); congruence. }
    unfold has_fd at 4. cbn. destruct (name_eqb (fd_name nf) n); [rewrite orb_true_r; reflexivity|].
    rewrite orb_false_r. reflexivity.
Qed.

Lemma choice_merge_names first n all new :
  has_fd n (choice_merge c first all new) = has_fd n all || has_fd n new.
Proof.
  rewrite choice_merge_fold, ch_fold_names. f_equal.
  pose proof (ch_pre_arity first n all new) as P. unfold has_fd, arity_of in *.
  destruct (find_fd n (ch_pre first all new)), (find_fd n all); congruence.
Qed.

End Facts.
