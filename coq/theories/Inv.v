(* A generic invariant theorem for the model M: given invariants on states,
   errors and the global (cache, trace, user state, ghosts) that every
   primitive step preserves, every evaluator of M preserves them at every
   fuel, for every grammar (memoized and left-recursive rules included) and
   arbitrary (stateful) hooks.  Instances: UTF-8 validity / no panic (C04),
   tracer balance (C19), "reported errors are recorded attempts" (C10). *)
From PegV Require Import Utf8 State Terminals TermErr Syntax Fields Literals LiteralsFacts Model.

Section Inv.
Variable ustate : Type.
Variable scfg : state_cfg.
Variable tcfg : term_cfg.
Variable fcfg : fields_cfg.
Variable rcfg : rule_cfg.
Variable hk : hooks ustate.
Variable g : grammar.

Notation glb := (glob ustate).

Variable Ist : glb -> pstate -> Prop.
Variable Ierr : glb -> perr -> Prop.
Variable Igl : glb -> Prop.
Variable Rgl Bal : glb -> glb -> Prop.
Variable forbid : bool.      (* true: PanicIndex / PanicSplit must not occur *)

Definition Icached (gl : glb) (c : cached) : Prop :=
  match c with COk _ st => Ist gl st | CErr e => Ierr gl e end.

Definition is_res (e : tev) : Prop := match e with TResOk _ | TResErr _ => True | _ => False end.

Hypothesis Rgl_refl : forall gl, Rgl gl gl.
Hypothesis Rgl_trans : forall a b c, Rgl a b -> Rgl b c -> Rgl a c.
Hypothesis Bal_refl : forall gl, Bal gl gl.
Hypothesis Bal_trans : forall a b c, Bal a b -> Bal b c -> Bal a c.
Hypothesis Bal_Rgl : forall a b, Bal a b -> Rgl a b.
Hypothesis Ist_mono : forall gl gl' st, Rgl gl gl' -> Ist gl st -> Ist gl' st.
Hypothesis Ierr_mono : forall gl gl' e, Rgl gl gl' -> Ierr gl e -> Ierr gl' e.
Hypothesis H_record : forall gl st e, Ist gl st -> Ierr gl e -> Ist gl (record_error scfg st e).
Hypothesis H_farthest : forall gl st, Ist gl st -> Ierr gl (report_farthest_error st).
Hypothesis H_attempt : forall gl st sp, Ist gl st -> Igl gl ->
  let a := {| e_pos := off st; e_spec := sp |} in
  Igl (log_fail ustate a gl) /\ Bal gl (log_fail ustate a gl) /\ Ierr (log_fail ustate a gl) a.
Hypothesis H_sentinel : forall gl st, Ist gl st -> Ierr gl {| e_pos := off st; e_spec := LeftRecursionSentinel |}.
Hypothesis H_trace_I : forall gl e, Igl gl -> Igl (trace ustate e gl).
Hypothesis H_start_R : forall gl n o, Rgl gl (trace ustate (TStart n o) gl).
Hypothesis Ist_trace : forall gl e st, Ist gl st -> Ist (trace ustate e gl) st.
Hypothesis Ierr_trace : forall gl e x, Ierr gl x -> Ierr (trace ustate e gl) x.
Hypothesis H_info : forall gl k, Bal gl (trace ustate (TInfo k) gl).
Hypothesis H_close : forall gl gl2 n o e, Bal (trace ustate (TStart n o) gl) gl2 -> is_res e -> Bal gl (trace ustate e gl2).
Hypothesis H_eval : forall gl n o, cache_get n o (g_cache gl) = None -> Igl gl ->
  Igl (log_eval ustate (n, o) gl) /\ Bal gl (log_eval ustate (n, o) gl).
Hypothesis H_user : forall gl u, Igl gl -> Igl (set_user ustate u gl) /\ Bal gl (set_user ustate u gl).
Hypothesis H_cget : forall gl n k c, Igl gl -> cache_get n k (g_cache gl) = Some c -> Icached gl c.
Hypothesis H_cput : forall gl n k c, Igl gl -> Icached gl c ->
  Igl (cache_put ustate n k c gl) /\ Bal gl (cache_put ustate n k c gl).

Definition term_post {A} (gl : glb) (r : tres A) : Prop :=
  match r with
  | TOk _ st' => Ist gl st'
  | TErr _ => True
  | TPanic => forbid = false
  | TSplit => forbid = false
  end.

Hypothesis H_t_char : forall gl st, Ist gl st -> term_post gl (parse_char scfg st).
Hypothesis H_t_ws : forall gl st, Ist gl st -> term_post gl (parse_Whitespace st).
Hypothesis H_t_eoi : forall gl st, Ist gl st -> term_post gl (parse_end_of_input scfg st).
Hypothesis H_t_lit : forall gl st s, Ist gl st -> all_scalar s -> term_post gl (parse_string_literal scfg st (encode_str s)).
Hypothesis H_t_clit : forall gl st c, Ist gl st -> is_scalar c = true -> term_post gl (parse_character_literal scfg tcfg st c).
Hypothesis H_t_range : forall gl st a b, Ist gl st -> is_scalar a = true -> is_scalar b = true ->
  term_post gl (parse_character_range scfg tcfg st a b).
Hypothesis Hguard : forbid = true -> insens_guard rcfg = true.
Hypothesis H_t_ilit : forall gl st s, Ist gl st -> (forbid = true -> TerminalsSpec.ascii_lower_str s) ->
  term_post gl (parse_string_literal_insensitive scfg tcfg st (encode_str s)).
Hypothesis H_t_iclit : forall gl st c, Ist gl st -> (forbid = true -> is_ascii c = true /\ to_ascii_lower c = c) ->
  term_post gl (parse_character_literal_insensitive scfg tcfg st c).
Hypothesis H_decode : forall gl st, Ist gl st -> rest st <> [] -> decode1 (rest st) = None -> forbid = false.
Hypothesis H_ext : forall gl r st, Ist gl st -> Igl gl ->
  match fst (h_extern hk (er_function r) (rest st) (g_user gl)) with
  | inl (v, n) =>
    match advance_safe st n with
    | AOk st' => Ist gl st'
    | _ => forbid = false
    end
  | inr _ => True
  end.

Definition nobad (p : panic_site) : Prop :=
  forbid = true -> p <> PanicIndex /\ p <> PanicSplit.

Definition post {A} (gl : glb) (x : R ustate A) : Prop :=
  match x with
  | (MOk _ st', gl') => Ist gl' st' /\ Igl gl' /\ Bal gl gl'
  | (MErr e, gl') => Ierr gl' e /\ Igl gl' /\ Bal gl gl'
  | (MPanic p, gl') => nobad p /\ Rgl gl gl'
  | (MFuel, gl') => Rgl gl gl'
  end.

Lemma post_trans {A} gl gl1 (x : R ustate A) : Bal gl gl1 -> post gl1 x -> post gl x.
Proof.
  intros B. destruct x as [[v st'|e|p|] gl']; cbn.
  - intros [H1 [H2 H3]]. repeat split; auto. eapply Bal_trans; eauto.
  - intros [H1 [H2 H3]]. repeat split; auto. eapply Bal_trans; eauto.
  - intros [H1 H2]. split; auto. eapply Rgl_trans; [apply Bal_Rgl|]; eauto.
  - intro H. eapply Rgl_trans; [apply Bal_Rgl|]; eauto.
Qed.

Lemma nobad_other p : p <> PanicIndex -> p <> PanicSplit -> nobad p.
Proof. intros; intro; auto. Qed.

Lemma nobad_free p : forbid = false -> nobad p.
Proof. intros H H'. congruence. Qed.

(* a fresh failure at st *)
Lemma fail_post {A} gl st sp : Ist gl st -> Igl gl -> post gl (fail_at ustate scfg (A:=A) st sp gl).
Proof.
  intros Hs Hg. unfold fail_at. cbn.
  destruct (H_attempt gl st sp Hs Hg) as [H1 [H2 H3]].
  split; [|split; auto].
  unfold report_error. apply H_farthest. apply H_record; [|exact H3].
  eapply Ist_mono; [apply Bal_Rgl; exact H2|exact Hs].
Qed.

Lemma lift_post {A B} (f : A -> B) gl st sp (r : tres A) :
  Ist gl st -> Igl gl -> term_post gl r -> err_is scfg st sp r ->
  post gl (lift_t ustate f sp st r gl).
Proof.
  intros Hs Hg Ht He. destruct r as [v st'|e| |]; cbn in *.
  - repeat split; auto.
  - subst e. exact (fail_post (A:=B) gl st sp Hs Hg).
  - split; [apply nobad_free; exact Ht|apply Rgl_refl].
  - split; [apply nobad_free; exact Ht|apply Rgl_refl].
Qed.

(* ====================================================================== *)
Section Step.
Variable ev : evals ustate.

Hypothesis IHe : forall ctx e st gl, Ist gl st -> Igl gl -> post gl (ev_expr ev ctx e st gl).
Hypothesis IHr : forall n st gl, Ist gl st -> Igl gl -> post gl (ev_rule ev n st gl).
Hypothesis IHl : forall ctx b plus st iters acc gl, Ist gl st -> Igl gl -> post gl (ev_loop ev ctx b plus st iters acc gl).
Hypothesis IHg : forall r st best gl, Ist gl st -> Igl gl -> Icached gl best -> post gl (ev_grow ev r st best gl).

Lemma with_ws_post {A} ctx st gl (k : pstate -> glb -> R ustate A) :
  Ist gl st -> Igl gl ->
  (forall st1 gl1, Ist gl1 st1 -> Igl gl1 -> post gl1 (k st1 gl1)) ->
  post gl (with_ws ustate ev ctx st gl k).
Proof.
  intros Hs Hg Hk. unfold with_ws. destruct (c_skip ctx); [|apply Hk; auto].
  pose proof (IHr n_Whitespace st gl Hs Hg) as W.
  destruct (ev_rule ev n_Whitespace st gl) as [[v st1|e|p|] gl1]; cbn in W |- *.
  - destruct W as [W1 [W2 W3]]. eapply post_trans; [exact W3|]. apply Hk; auto.
  - exact W.
  - exact W.
  - exact W.
Qed.

Lemma no_fields_post {A} gl (x : R ustate A) : post gl x -> post gl (no_fields ustate x).
Proof. destruct x as [[v st'|e|p|] gl']; cbn; auto. Qed.

Lemma choice_loop_post ctx fds alts : forall cst gl,
  Ist gl cst -> Igl gl -> post gl (choice_loop ustate scfg fcfg g ev ctx fds alts cst gl).
Proof.
  induction alts as [|a alts IH]; intros cst gl Hs Hg; cbn [choice_loop].
  - cbn. repeat split; auto.
  - pose proof (IHe ctx a cst gl Hs Hg) as B.
    destruct (ev_expr ev ctx a cst gl) as [[fs st'|e|p|] gl']; cbn in B.
    + destruct B as [B1 [B2 B3]].
      destruct (own_fields fcfg g a); [|cbn; split; [apply nobad_other; discriminate|apply Bal_Rgl; auto]].
      destruct (convert_arm fds l fs); cbn; [auto|split; [apply nobad_other; discriminate|apply Bal_Rgl; auto]].
    + destruct B as [B1 [B2 B3]]. eapply post_trans; [exact B3|].
      apply IH; auto. apply H_record; auto. eapply Ist_mono; [apply Bal_Rgl; exact B3|exact Hs].
    + exact B.
    + exact B.
Qed.

Lemma seq_loop_post ctx fds parts : forall st acc gl,
  Ist gl st -> Igl gl -> post gl (seq_loop ustate ev ctx fds parts st acc gl).
Proof.
  induction parts as [|p ps IH]; intros st acc gl Hs Hg; cbn [seq_loop].
  - destruct (order_as fds acc); cbn; [auto|split; [apply nobad_other; discriminate|apply Rgl_refl]].
  - pose proof (IHe ctx p st gl Hs Hg) as B.
    destruct (ev_expr ev ctx p st gl) as [[fs st'|e|pp|] gl']; cbn in B.
    + destruct B as [B1 [B2 B3]].
      destruct (seq_merge_vals acc fs); [|cbn; split; [apply nobad_other; discriminate|apply Bal_Rgl; auto]].
      eapply post_trans; [exact B3|]. apply IH; auto.
    + exact B.
    + exact B.
    + exact B.
Qed.

Lemma run_lit_post m gl st :
  Ist gl st -> Igl gl ->
  (match m with LMChar c => is_scalar c = true | LMStr s => all_scalar s | _ => True end) ->
  (forbid = true -> lit_ok m) ->
  post gl (run_lit ustate scfg tcfg m st gl).
Proof.
  intros Hs Hg Hm Hok. destruct m; cbn [run_lit].
  - apply lift_post; [exact Hs|exact Hg|apply H_t_clit; auto|apply err_clit].
  - apply lift_post; [exact Hs|exact Hg|apply H_t_lit; auto|apply err_lit].
  - apply lift_post; [exact Hs|exact Hg|apply H_t_iclit; auto|apply err_iclit].
  - apply lift_post; [exact Hs|exact Hg|apply H_t_ilit; auto|apply err_ilit].
Qed.


Lemma panic_post {A} gl p : p <> PanicIndex -> p <> PanicSplit -> post (A:=A) gl (MPanic p, gl).
Proof. intros. cbn. split; [apply nobad_other; auto|apply Rgl_refl]. Qed.

Theorem expr_step_post ctx e st gl :
  Ist gl st -> Igl gl -> post gl (expr_step ustate scfg tcfg fcfg rcfg g ev ctx e st gl).
Proof.
  intros Hs Hg. destruct e; cbn [expr_step].
  - destruct alts as [|a [|a2 rest]]; [apply panic_post; discriminate|apply IHe; auto|].
    destruct (filt fcfg g ctx _); [apply choice_loop_post; auto|apply panic_post; discriminate].
  - destruct parts as [|p [|p2 rest]]; [cbn; repeat split; auto|apply IHe; auto|].
    destruct (filt fcfg g ctx _); [apply seq_loop_post; auto|apply panic_post; discriminate].
  - apply IHe; auto.
  - pose proof (IHe ctx e st gl Hs Hg) as B.
    destruct (ev_expr ev ctx e st gl) as [[fs st'|er|p|] gl']; cbn in B; cbv iota beta; try exact B.
    destruct B as [B1 [B2 B3]].
    destruct (filt fcfg g ctx e); [|split; [apply nobad_other; discriminate|apply Bal_Rgl; auto]].
    destruct (defaults l); cbn; [|split; [apply nobad_other; discriminate|apply Bal_Rgl; auto]].
    repeat split; auto. apply H_record; auto. eapply Ist_mono; [apply Bal_Rgl; exact B3|exact Hs].
  - destruct (filt fcfg g ctx e); [apply IHl; auto|apply panic_post; discriminate].
  - pose proof (IHe ctx e st gl Hs Hg) as B.
    destruct (ev_expr ev ctx e st gl) as [[fs st'|er|p|] gl']; cbn in B; cbv iota beta; try exact B.
    + destruct B as [B1 [B2 B3]]. eapply post_trans; [exact B3|].
      apply (fail_post (A:=fields)); auto. eapply Ist_mono; [apply Bal_Rgl; exact B3|exact Hs].
    + destruct B as [B1 [B2 B3]]. repeat split; auto. eapply Ist_mono; [apply Bal_Rgl; exact B3|exact Hs].
  - pose proof (IHe ctx e st gl Hs Hg) as B.
    destruct (ev_expr ev ctx e st gl) as [[fs st'|er|p|] gl']; cbn in B; cbv iota beta; try exact B.
    destruct B as [B1 [B2 B3]]. repeat split; auto. eapply Ist_mono; [apply Bal_Rgl; exact B3|exact Hs].
  - destruct (compile_range from to) as [a b| |] eqn:C; try (apply panic_post; discriminate).
    destruct (compile_range_ok _ _ _ _ C) as [Ha Hb].
    apply no_fields_post. apply with_ws_post; auto. intros st1 gl1 H1 H2.
    apply lift_post; [assumption|assumption|apply H_t_range; auto|apply err_range].
  - destruct (compile_lit (insens_guard rcfg) insensitive body) as [m| | |] eqn:C; try (apply panic_post; discriminate).
    apply no_fields_post. apply with_ws_post; auto. intros st1 gl1 H1 H2.
    apply run_lit_post; auto; [eapply compile_lit_scalar; eauto|].
    intro Hfb. rewrite (Hguard Hfb) in C. eapply compile_lit_ok; eauto.
  - apply no_fields_post. apply with_ws_post; auto. intros st1 gl1 H1 H2.
    apply lift_post; [assumption|assumption|apply H_t_eoi; auto|apply err_eoi].
  - destruct (find_rule g rule); [apply IHe; auto|apply panic_post; discriminate].
  - assert (W : post gl (with_ws ustate ev ctx st gl (fun st0 gl0 => ev_rule ev typ st0 gl0))).
    { apply with_ws_post; auto. }
    destruct (with_ws ustate ev ctx st gl (fun st0 gl0 => ev_rule ev typ st0 gl0)) as [[v st'|er|p|] gl'];
      destruct (fname_of fname); cbn in W; cbv iota beta; try exact W.
    destruct W as [W1 [W2 W3]].
    destruct (postprocess (c_fields ctx) n typ v); cbn; [auto|split; [apply nobad_other; discriminate|apply Bal_Rgl; auto]].
Qed.

Theorem loop_step_post ctx b plus st iters acc gl :
  Ist gl st -> Igl gl -> post gl (loop_step ustate scfg ev ctx b plus st iters acc gl).
Proof.
  intros Hs Hg. unfold loop_step.
  pose proof (IHe ctx b st gl Hs Hg) as B.
  destruct (ev_expr ev ctx b st gl) as [[fs st'|er|p|] gl']; cbn in B; cbv iota beta; try exact B.
  - destruct B as [B1 [B2 B3]].
    destruct (extend_all acc fs); [|split; [apply nobad_other; discriminate|apply Bal_Rgl; auto]].
    eapply post_trans; [exact B3|]. apply IHl; auto.
  - destruct B as [B1 [B2 B3]].
    assert (Hs2 : Ist gl' (record_error scfg st er)).
    { apply H_record; auto. eapply Ist_mono; [apply Bal_Rgl; exact B3|exact Hs]. }
    destruct (plus && Nat.eqb iters 0); cbn; repeat split; auto.
Qed.

Lemma run_checks_post cks v st' : forall gl,
  Ist gl st' -> Igl gl -> post gl (run_checks ustate scfg hk cks v st' gl).
Proof.
  induction cks as [|f cks IH]; intros gl Hs Hg; cbn [run_checks].
  - cbn. repeat split; auto.
  - destruct (h_check hk f v (g_user gl)) as [ok u].
    destruct (H_user gl u Hg) as [U1 U2].
    assert (Hs1 : Ist (set_user ustate u gl) st') by (eapply Ist_mono; [apply Bal_Rgl; exact U2|exact Hs]).
    destruct ok.
    + eapply post_trans; [exact U2|]. apply IH; auto.
    + eapply post_trans; [exact U2|]. apply (fail_post (A:=value)); auto.
Qed.

Lemma rule_body_post r st gl :
  Ist gl st -> Igl gl -> post gl (rule_body ustate scfg fcfg hk g ev r st gl).
Proof.
  intros Hs Hg. unfold rule_body.
  destruct (get_fields fcfg (gf_fuel g) g (r_def r)); try (apply panic_post; discriminate).
  match goal with |- context [ev_expr ev ?c (r_def r) st gl] => pose proof (IHe c (r_def r) st gl Hs Hg) as B;
    destruct (ev_expr ev c (r_def r) st gl) as [[fs st'|er|p|] gl'] end; cbn in B; cbv iota beta; try exact B.
  destruct B as [B1 [B2 B3]].
  match goal with |- context [match ?X with Some v => run_checks _ _ _ _ v _ _ | None => _ end] => destruct X end.
  - eapply post_trans; [exact B3|]. apply run_checks_post; auto.
  - split; [apply nobad_other; discriminate|apply Bal_Rgl; auto].
Qed.

Lemma of_cached_post gl gl' c : Icached gl' c -> Igl gl' -> Bal gl gl' -> post gl (of_cached c, gl').
Proof. intros H1 H2 H3. destruct c; cbn in *; auto. Qed.

Theorem grow_step_post r st best gl :
  Ist gl st -> Igl gl -> Icached gl best ->
  post gl (grow_step ustate scfg fcfg rcfg hk g ev r st best gl).
Proof.
  intros Hs Hg Hb. unfold grow_step.
  set (gl1 := trace ustate (TInfo 2) gl).
  assert (G1 : Igl gl1) by (apply H_trace_I; auto).
  assert (B01 : Bal gl gl1) by apply H_info.
  assert (Hs1 : Ist gl1 st) by (eapply Ist_mono; [apply Bal_Rgl; exact B01|exact Hs]).
  pose proof (rule_body_post r st gl1 Hs1 G1) as B.
  eapply post_trans; [exact B01|].
  destruct (rule_body ustate scfg fcfg hk g ev r st gl1) as [[v st'|er|p|] gl2]; cbn in B; cbv iota beta; try exact B.
  - destruct B as [B1 [B2 B3]].
    assert (Hst2 : Ist gl2 st) by (eapply Ist_mono; [apply Bal_Rgl; exact B3|exact Hs1]).
    assert (Hb2 : Icached gl2 best).
    { destruct best; cbn in *; [eapply Ist_mono|eapply Ierr_mono]; try exact Hb;
        (eapply Rgl_trans; [apply Bal_Rgl; exact B01|apply Bal_Rgl; exact B3]). }
    assert (GO : post gl1 (ev_grow ev r st (COk v st') (cache_put ustate (r_name r) (off st) (COk v st') gl2))).
    { destruct (H_cput gl2 (r_name r) (off st) (COk v st') B2 B1) as [C1 C2].
      eapply post_trans; [eapply Bal_trans; [exact B3|exact C2]|].
      apply IHg; auto.
      - eapply Ist_mono; [apply Bal_Rgl; exact C2|exact Hst2].
      - cbn. eapply Ist_mono; [apply Bal_Rgl; exact C2|exact B1]. }
    destruct best as [bv bst|be].
    + destruct (is_further_than scfg st' bst); [exact GO|].
      apply of_cached_post; auto.
    + exact GO.
  - destruct B as [B1 [B2 B3]].
    assert (Hb2 : Icached gl2 best).
    { destruct best; cbn in *; [eapply Ist_mono|eapply Ierr_mono]; try exact Hb;
        (eapply Rgl_trans; [apply Bal_Rgl; exact B01|apply Bal_Rgl; exact B3]). }
    destruct (leftrec_closed rcfg); [|cbn; auto].
    destruct best as [bv bst|be].
    + apply of_cached_post; auto.
    + destruct (H_cput gl2 (r_name r) (off st) (CErr er) B2 B1) as [C1 C2]. cbn.
      repeat split; auto; [eapply Ierr_mono; [apply Bal_Rgl; exact C2|exact B1]|eapply Bal_trans; eauto].
Qed.

Lemma memo_wrap_post r st gl :
  Ist gl st -> Igl gl -> post gl (memo_wrap ustate scfg fcfg rcfg hk g ev r st gl).
Proof.
  intros Hs Hg. unfold memo_wrap.
  destruct (fl_left_recursive (flags_of (r_directives r))).
  - destruct (cache_get (r_name r) (off st) (g_cache gl)) as [c|] eqn:CG.
    + pose proof (H_cget gl _ _ c Hg CG) as HC.
      apply of_cached_post; [|apply H_trace_I; auto|apply H_info].
      destruct c; cbn in *; [eapply Ist_mono|eapply Ierr_mono]; try exact HC; apply Bal_Rgl; apply H_info.
    + set (sent := CErr (report_error scfg st LeftRecursionSentinel)).
      assert (HS : Icached gl sent).
      { cbn. unfold report_error. apply H_farthest. apply H_record; auto. }
      destruct (H_cput gl (r_name r) (off st) sent Hg HS) as [C1 C2].
      eapply post_trans; [exact C2|]. apply IHg; auto.
      * eapply Ist_mono; [apply Bal_Rgl; exact C2|exact Hs].
      * destruct sent; cbn in *; [eapply Ist_mono|eapply Ierr_mono]; try exact HS; apply Bal_Rgl; exact C2.
  - destruct (fl_memoize (flags_of (r_directives r))); [|apply rule_body_post; auto].
    destruct (cache_get (r_name r) (off st) (g_cache gl)) as [c|] eqn:CG.
    + pose proof (H_cget gl _ _ c Hg CG) as HC.
      apply of_cached_post; [|apply H_trace_I; auto|apply H_info].
      destruct c; cbn in *; [eapply Ist_mono|eapply Ierr_mono]; try exact HC; apply Bal_Rgl; apply H_info.
    + destruct (H_eval gl (r_name r) (off st) CG Hg) as [E1 E2].
      assert (Hs1 : Ist (log_eval ustate (r_name r, off st) gl) st)
        by (eapply Ist_mono; [apply Bal_Rgl; exact E2|exact Hs]).
      pose proof (rule_body_post r st _ Hs1 E1) as B.
      eapply post_trans; [exact E2|].
      destruct (rule_body ustate scfg fcfg hk g ev r st (log_eval ustate (r_name r, off st) gl))
        as [[v st'|er|p|] gl2]; cbn in B; cbv iota beta; try exact B.
      * destruct B as [B1 [B2 B3]].
        destruct (H_cput gl2 (r_name r) (off st) (COk v st') B2 B1) as [C1 C2].
        repeat split; auto; [eapply Ist_mono; [apply Bal_Rgl; exact C2|exact B1]|eapply Bal_trans; eauto].
      * destruct B as [B1 [B2 B3]].
        destruct (memo_closed rcfg); cbn; [|auto].
        destruct (H_cput gl2 (r_name r) (off st) (CErr er) B2 B1) as [C1 C2].
        repeat split; auto; [eapply Ierr_mono; [apply Bal_Rgl; exact C2|exact B1]|eapply Bal_trans; eauto].
Qed.

Lemma char_parts_post nm ps st : forall gl,
  Ist gl st -> Igl gl -> post gl (char_parts ustate scfg tcfg ev nm ps st gl).
Proof.
  induction ps as [|pt ps IH]; intros gl Hs Hg; cbn [char_parts].
  - apply (fail_post (A:=value)); auto.
  - destruct pt as [i|a b|n].
    + destruct (decode_item i) as [c| |] eqn:D; try (apply panic_post; discriminate).
      pose proof (H_t_clit gl st c Hs (decode_item_scalar _ _ D)) as T.
      destruct (parse_character_literal scfg tcfg st c); cbn in T; cbv iota beta.
      * repeat split; auto.
      * apply IH; auto.
      * split; [apply nobad_free; exact T|apply Rgl_refl].
      * split; [apply nobad_free; exact T|apply Rgl_refl].
    + destruct (compile_range a b) as [x y| |] eqn:C; try (apply panic_post; discriminate).
      destruct (compile_range_ok _ _ _ _ C) as [Hx Hy].
      pose proof (H_t_range gl st x y Hs Hx Hy) as T.
      destruct (parse_character_range scfg tcfg st x y); cbn in T; cbv iota beta.
      * repeat split; auto.
      * apply IH; auto.
      * split; [apply nobad_free; exact T|apply Rgl_refl].
      * split; [apply nobad_free; exact T|apply Rgl_refl].
    + pose proof (IHr n st gl Hs Hg) as B.
      destruct (ev_rule ev n st gl) as [[v st'|er|p|] gl']; cbn in B; cbv iota beta; try exact B.
      destruct B as [B1 [B2 B3]]. eapply post_trans; [exact B3|]. apply IH; auto.
      eapply Ist_mono; [apply Bal_Rgl; exact B3|exact Hs].
Qed.

Lemma char_rule_post r st gl :
  Ist gl st -> Igl gl -> post gl (char_rule_body ustate scfg tcfg hk ev r st gl).
Proof.
  intros Hs Hg. unfold char_rule_body. destruct (cr_checks r) as [|ck cks]; [apply char_parts_post; auto|].
  destruct (rest st) as [|b0 bs] eqn:Er; [apply (fail_post (A:=value)); auto|].
  destruct (decode1 (b0 :: bs)) as [[c k]|] eqn:D.
  - destruct (char_checks ustate hk (cr_name r) (ck :: cks) c); [apply char_parts_post; auto|apply (fail_post (A:=value)); auto].
  - cbn. split; [|apply Rgl_refl]. apply nobad_free. apply (H_decode gl st Hs); [rewrite Er; discriminate|rewrite Er; exact D].
Qed.

Lemma extern_rule_post r st gl :
  Ist gl st -> Igl gl -> post gl (extern_rule_body ustate scfg hk r st gl).
Proof.
  intros Hs Hg. unfold extern_rule_body.
  pose proof (H_ext gl r st Hs Hg) as X.
  destruct (h_extern hk (er_function r) (rest st) (g_user gl)) as [res u]. cbn [fst] in X.
  destruct (H_user gl u Hg) as [U1 U2].
  assert (Hs1 : Ist (set_user ustate u gl) st) by (eapply Ist_mono; [apply Bal_Rgl; exact U2|exact Hs]).
  destruct res as [[v k]|msg].
  - destruct (advance_safe st k) as [st'| |]; cbn.
    + repeat split; auto. eapply Ist_mono; [apply Bal_Rgl; exact U2|exact X].
    + split; [apply nobad_free; exact X|apply Bal_Rgl; auto].
    + split; [apply nobad_free; exact X|apply Bal_Rgl; auto].
  - eapply post_trans; [exact U2|]. apply (fail_post (A:=value)); auto.
Qed.

Theorem rule_step_post n st gl :
  Ist gl st -> Igl gl -> post gl (rule_step ustate scfg tcfg fcfg rcfg hk g ev n st gl).
Proof.
  intros Hs Hg. unfold rule_step.
  destruct (find_grule g n) as [[r|r|r]|].
  - set (gl1 := trace ustate (TStart (r_name r) (off st)) gl).
    assert (G1 : Igl gl1) by (apply H_trace_I; auto).
    assert (R01 : Rgl gl gl1) by apply H_start_R.
    assert (Hs1 : Ist gl1 st) by (eapply Ist_mono; eauto).
    pose proof (memo_wrap_post r st gl1 Hs1 G1) as B.
    destruct (memo_wrap ustate scfg fcfg rcfg hk g ev r st gl1) as [[v st'|er|p|] gl2]; cbn in B; cbv iota beta.
    + destruct B as [B1 [B2 B3]]. split; [|split].
      * apply Ist_trace; exact B1.
      * apply H_trace_I; auto.
      * eapply H_close; [exact B3|exact I].
    + destruct B as [B1 [B2 B3]]. split; [|split].
      * apply Ierr_trace; exact B1.
      * apply H_trace_I; auto.
      * eapply H_close; [exact B3|exact I].
    + destruct B as [B1 B2]. split; auto. eapply Rgl_trans; eauto.
    + eapply Rgl_trans; eauto.
  - apply char_rule_post; auto.
  - apply extern_rule_post; auto.
  - destruct (name_eqb n n_char).
    + apply lift_post; [assumption|assumption|apply H_t_char; auto|apply err_char].
    + destruct (name_eqb n n_Whitespace); [|apply panic_post; discriminate].
      apply lift_post; [assumption|assumption|apply H_t_ws; auto|apply err_ws].
Qed.

End Step.

(* ====================================================================== *)
Notation Mrun := (run ustate scfg tcfg fcfg rcfg hk g).

Theorem m_invariant n :
  (forall ctx e st gl, Ist gl st -> Igl gl -> post gl (ev_expr (Mrun n) ctx e st gl)) /\
  (forall nm st gl, Ist gl st -> Igl gl -> post gl (ev_rule (Mrun n) nm st gl)) /\
  (forall ctx b plus st iters acc gl, Ist gl st -> Igl gl -> post gl (ev_loop (Mrun n) ctx b plus st iters acc gl)) /\
  (forall r st best gl, Ist gl st -> Igl gl -> Icached gl best -> post gl (ev_grow (Mrun n) r st best gl)).
Proof.
  induction n as [|n [IHe [IHr [IHl IHg]]]].
  - repeat split; intros; cbn; apply Rgl_refl.
  - split; [|split; [|split]].
    + intros. apply expr_step_post; auto.
    + intros. apply rule_step_post; auto.
    + intros. apply loop_step_post; auto.
    + intros. apply grow_step_post; auto.
Qed.


Corollary m_inv_rule n nm st gl : Ist gl st -> Igl gl -> post gl (ev_rule (Mrun n) nm st gl).
Proof. apply (proj1 (proj2 (m_invariant n))). Qed.

End Inv.
