(* The farthest-error bookkeeping of ParseState as a fold over the log of
   failed attempts: record_error (with `<=`) keeps the furthest, latest one. *)
From Coq Require Import Lia.
From PegV Require Import Utf8 State Spec.

Notation fl := furthest_latest.

Lemma fl_app f a b : fl f (a ++ b) = fl (fl f a) b.
Proof. revert f. induction a as [|x a IH]; intro f; cbn; [reflexivity|]. apply IH. Qed.

Lemma fl_some_mono l : forall x, exists y, fl (Some x) l = Some y /\ e_pos x <= e_pos y.
Proof.
  induction l as [|e l IH]; intro x; cbn.
  - exists x. split; [reflexivity|lia].
  - destruct (Nat.leb (e_pos x) (e_pos e)) eqn:E.
    + destruct (IH e) as [y [Hy Ly]]. exists y. split; [exact Hy|]. apply Nat.leb_le in E. lia.
    + apply IH.
Qed.

Lemma fl_nonempty f l : l <> [] -> fl f l <> None.
Proof.
  destruct l as [|e l]; [congruence|]. intros _. cbn.
  destruct f as [a|].
  - destruct (Nat.leb (e_pos a) (e_pos e)).
    + destruct (fl_some_mono l e) as [y [Hy _]]. rewrite Hy. discriminate.
    + destruct (fl_some_mono l a) as [y [Hy _]]. rewrite Hy. discriminate.
  - destruct (fl_some_mono l e) as [y [Hy _]]. rewrite Hy. discriminate.
Qed.

Lemma fl_some_not_none x l : fl (Some x) l <> None.
Proof. destruct (fl_some_mono l x) as [y [Hy _]]. rewrite Hy. discriminate. Qed.

Section WithCfg.
Variable scfg : state_cfg.
Hypothesis Hle : rec_le scfg = true.

Lemma record_error_rest st e : rest (record_error scfg st e) = rest st.
Proof. unfold record_error. destruct (far st); [|reflexivity]. destruct (if rec_le scfg then _ else _); reflexivity. Qed.

Lemma record_error_off st e : off (record_error scfg st e) = off st.
Proof. unfold record_error. destruct (far st); [|reflexivity]. destruct (if rec_le scfg then _ else _); reflexivity. Qed.

Lemma record_error_far st e : far (record_error scfg st e) = fl (far st) [e].
Proof.
  unfold record_error. rewrite Hle. cbn. destruct (far st) as [f|] eqn:F; [|reflexivity].
  destruct (Nat.leb (e_pos f) (e_pos e)); [reflexivity|exact F].
Qed.

(* folding a sub-result (itself the fold of a log over the same start) back in *)
Lemma record_error_fl st e l :
  Some e = fl (far st) l -> far (record_error scfg st e) = fl (far st) l.
Proof.
  intro H. rewrite record_error_far. cbn. destruct (far st) as [f|]; [|exact H].
  destruct (fl_some_mono l f) as [y [Hy Ly]]. rewrite Hy in H. injection H as ->.
  replace (Nat.leb (e_pos f) (e_pos y)) with true by (symmetry; apply Nat.leb_le; lia).
  symmetry. exact Hy.
Qed.

Lemma report_farthest_some st x : far st = Some x -> report_farthest_error st = x.
Proof. unfold report_farthest_error. intros ->. reflexivity. Qed.

Lemma report_error_fl st sp :
  Some (report_error scfg st sp) = fl (far st) [ {| e_pos := off st; e_spec := sp |} ].
Proof.
  unfold report_error, report_farthest_error. rewrite record_error_far. cbn.
  destruct (far st) as [f|]; [|reflexivity].
  destruct (Nat.leb (e_pos f) (off st)); reflexivity.
Qed.

End WithCfg.
