(* The byte-level matchers accept exactly the character-level language of
   TerminalsSpec on valid UTF-8, consume the UTF-8 length of what they matched,
   never panic and never cut inside a sequence (C01 terminals, C04). *)
From Coq Require Import ZArith ZifyBool ZifyNat ZifyN Lia.
From PegV Require Import Utf8 Utf8Facts State Terminals TerminalsSpec.
Ltac Zify.zify_post_hook ::= Z.div_mod_to_equations.
Local Open Scope N_scope.

Section Ok.
Variable scfg : state_cfg.
Let tcfg := term_cfg_expected.

Definition after (st : pstate) (m cs' : list N) : pstate :=
  {| rest := encode_str cs'; off := off st + length (encode_str m); far := far st |}.

Definition term_ok {A} (r : tres A) (st : pstate) (cs : list N) (t : term)
           (val : list N -> A) (sp : specifics) : Prop :=
  match term_match t cs with
  | Some m => r = TOk (val m) (after st m (skipn (length m) cs))
  | None => r = TErr (report_error scfg st sp)
  end.

Lemma advance_ok st a b :
  rest st = a ++ b -> valid_utf8 b ->
  advance st (length a) = AOk {| rest := b; off := off st + length a; far := far st |}.
Proof.
  intros E Hb. unfold advance. rewrite E.
  replace (Nat.ltb (length (a ++ b)) (length a)) with false
    by (symmetry; apply Nat.ltb_ge; rewrite app_length; lia).
  rewrite is_boundary_app_exact by auto. rewrite skipn_app_exact. reflexivity.
Qed.

Lemma adv_then_ok {A} st m cs' (v : A) :
  rest st = encode_str m ++ encode_str cs' -> all_scalar cs' ->
  adv_then st (length (encode_str m)) v = TOk v (after st m cs').
Proof.
  intros E H. unfold adv_then. rewrite (advance_ok st _ _ E) by (apply valid_encode_str; auto).
  reflexivity.
Qed.

Lemma encode_str_single c : encode_str [c] = encode c.
Proof. unfold encode_str. cbn. apply app_nil_r. Qed.

Lemma encode_str_cons1 c cs : encode_str (c :: cs) = encode_str [c] ++ encode_str cs.
Proof. rewrite encode_str_single. reflexivity. Qed.

Lemma encode_cons_inv c cs : exists b t, encode c ++ encode_str cs = b :: t.
Proof.
  destruct (encode c ++ encode_str cs) as [|b t] eqn:E; [|eauto].
  apply app_eq_nil in E. destruct E as [E _]. exfalso. eapply encode_nonempty; eauto.
Qed.

(* ---- parse_char ------------------------------------------------------- *)
Lemma parse_char_ok st cs :
  rest st = encode_str cs -> all_scalar cs ->
  term_ok (parse_char scfg st) st cs TmAny (fun m => hd 0 m) ExpectedAnyCharacter.
Proof.
  intros E H. unfold term_ok, parse_char. destruct cs as [|c cs]; cbn [term_match].
  - rewrite E. reflexivity.
  - apply all_scalar_cons in H. destruct H as [Hc H].
    rewrite E, encode_str_cons.
    destruct (encode_cons_inv c cs) as [b [t Ebt]]. rewrite Ebt at 1.
    rewrite decode1_encode by auto. cbn [length skipn hd].
    rewrite <- encode_length, <- encode_str_single.
    apply adv_then_ok; auto. rewrite E; apply encode_str_cons1.
Qed.

(* ---- parse_Whitespace ------------------------------------------------- *)
Lemma ws_byte_ascii b : is_ascii_ws b = true -> b <? 0x80 = true.
Proof. unfold is_ascii_ws. intro. lia. Qed.

Lemma ws_loop_ok cs : forall o f, all_scalar cs ->
  ws_loop (encode_str cs) o f =
  TOk tt {| rest := encode_str (skipn (length (take_ws cs)) cs);
            off := o + length (encode_str (take_ws cs)); far := f |}.
Proof.
  induction cs as [|c cs IH]; intros o f H.
  - cbn. rewrite Nat.add_0_r. reflexivity.
  - apply all_scalar_cons in H. destruct H as [Hc H].
    rewrite encode_str_cons. destruct (encode_cons_inv c cs) as [b [t Ebt]].
    destruct (encode_head_ascii c _ b t Hc Ebt) as [Hlt Heq].
    cbn [take_ws]. unfold is_ws_char.
    destruct (is_ascii_ws c) eqn:Ews.
    + pose proof (ws_byte_ascii _ Ews) as Hca.
      rewrite encode_ascii in * by auto. cbn [app] in *. injection Ebt as <- <-.
      cbn [ws_loop]. rewrite Ews.
      pose proof (advance_ok {| rest := c :: encode_str cs; off := o; far := f |} [c] (encode_str cs)) as HA.
      cbn [length] in HA. rewrite HA by (auto; apply valid_encode_str; auto).
      rewrite IH by auto. cbn [length skipn]. rewrite encode_str_cons, encode_ascii by auto.
      cbn [app length]. f_equal. f_equal. lia.
    + rewrite Ebt. cbn [ws_loop].
      assert (is_ascii_ws b = false) as ->.
      { destruct (b <? 0x80) eqn:Hb.
        - destruct (Heq eq_refl) as [-> _]. exact Ews.
        - unfold is_ascii_ws. lia. }
      cbn [length skipn]. rewrite <- Ebt, Nat.add_0_r. reflexivity.
Qed.

Lemma parse_Whitespace_ok st cs :
  rest st = encode_str cs -> all_scalar cs ->
  term_ok (parse_Whitespace st) st cs TmWs (fun _ => tt) OtherError.
Proof.
  intros E H. unfold term_ok, parse_Whitespace. cbn [term_match].
  rewrite E, ws_loop_ok by auto. reflexivity.
Qed.

(* ---- parse_string_literal --------------------------------------------- *)
Lemma list_eqb_eq a b : list_eqb a b = true <-> a = b.
Proof.
  revert b. induction a as [|x a IH]; intros [|y b]; cbn; try (split; [discriminate|discriminate]);
    try tauto.
  rewrite andb_true_iff, IH, N.eqb_eq. split; [intros [-> ->]; reflexivity| intro E; injection E; auto].
Qed.

Lemma prefix_firstn (s cs : list N) :
  s = firstn (length s) cs <-> exists cs', cs = s ++ cs'.
Proof.
  split.
  - intro E. exists (skipn (length s) cs). rewrite E at 1. symmetry. apply firstn_skipn.
  - intros [cs' ->]. rewrite firstn_app, Nat.sub_diag, firstn_all. cbn. symmetry. apply app_nil_r.
Qed.

Lemma parse_string_literal_ok st cs s :
  rest st = encode_str cs -> all_scalar cs -> all_scalar s ->
  term_ok (parse_string_literal scfg st (encode_str s)) st cs (TmStr s) (fun _ => tt)
          (ExpectedString (encode_str s)).
Proof.
  intros E H Hs. unfold term_ok, parse_string_literal. cbn [term_match]. rewrite E.
  destruct (list_eqb s (firstn (length s) cs)) eqn:El.
  - apply list_eqb_eq in El. pose proof El as El'. apply prefix_firstn in El'. destruct El' as [cs' ->].
    replace (starts_with (encode_str s) (encode_str (s ++ cs'))) with true
      by (symmetry; apply starts_with_chars; eauto).
    rewrite skipn_app_exact. apply all_scalar_app in H. destruct H as [_ H].
    apply adv_then_ok; auto. rewrite E. apply encode_str_app.
  - destruct (starts_with (encode_str s) (encode_str cs)) eqn:Es; [|reflexivity].
    apply starts_with_chars in Es; auto. apply prefix_firstn in Es.
    apply list_eqb_eq in Es. congruence.
Qed.

(* ---- parse_character_literal ------------------------------------------ *)
Lemma as_u8_small c : c < 256 -> as_u8 c = c.
Proof. unfold as_u8. intro. apply N.mod_small. auto. Qed.

Lemma parse_character_literal_ok st cs c :
  rest st = encode_str cs -> all_scalar cs -> is_scalar c = true ->
  term_ok (parse_character_literal scfg tcfg st c) st cs (TmChar c) (fun _ => c)
          (ExpectedCharacter c).
Proof.
  intros E H Hc. unfold term_ok, parse_character_literal. cbn [tcfg term_cfg_expected lit_fast_is_ascii term_match].
  unfold is_ascii. destruct (c <? 0x80) eqn:Hca.
  - destruct cs as [|x cs].
    + rewrite E. reflexivity.
    + apply all_scalar_cons in H. destruct H as [Hx H].
      rewrite E, encode_str_cons. destruct (encode_cons_inv x cs) as [b [t Ebt]].
      destruct (encode_head_ascii x _ b t Hx Ebt) as [Hlt Heq].
      rewrite Ebt. rewrite as_u8_small by lia.
      destruct (x =? c) eqn:Exc.
      * apply N.eqb_eq in Exc. subst x. rewrite encode_ascii in Ebt by auto.
        cbn [app] in Ebt. injection Ebt as <- <-. rewrite N.eqb_refl. cbn [negb length skipn].
        replace 1%nat with (length (encode_str [c])) by (rewrite encode_str_single, encode_ascii; auto).
        apply adv_then_ok; auto. rewrite E; apply encode_str_cons1.
      * destruct (b =? c) eqn:Ebc; [|reflexivity].
        apply N.eqb_eq in Ebc. subst b. rewrite Hca in Heq. destruct (Heq eq_refl) as [-> _].
        rewrite N.eqb_refl in Exc. discriminate.
  - rewrite E. rewrite <- (encode_str_single c).
    assert (Hsc : all_scalar [c]) by (constructor; auto; constructor).
    destruct cs as [|x cs].
    + destruct (starts_with (encode_str [c]) (encode_str [])) eqn:Es; [|reflexivity].
      apply starts_with_chars in Es; auto. destruct Es as [? Es]. discriminate.
    + destruct (x =? c) eqn:Exc.
      * apply N.eqb_eq in Exc. subst x.
        replace (starts_with (encode_str [c]) (encode_str (c :: cs))) with true
          by (symmetry; apply starts_with_chars; auto; exists cs; reflexivity).
        cbn [negb length skipn]. rewrite <- encode_length, <- encode_str_single.
        apply all_scalar_cons in H. destruct H as [_ H].
        apply adv_then_ok; auto. rewrite E; apply encode_str_cons1.
      * destruct (starts_with (encode_str [c]) (encode_str (x :: cs))) eqn:Es; [|reflexivity].
        apply starts_with_chars in Es; auto. destruct Es as [? Es]. injection Es as -> _.
        rewrite N.eqb_refl in Exc. discriminate.
Qed.

(* ---- parse_character_range -------------------------------------------- *)
Lemma parse_character_range_ok st cs a b :
  rest st = encode_str cs -> all_scalar cs -> is_scalar a = true -> is_scalar b = true ->
  term_ok (parse_character_range scfg tcfg st a b) st cs (TmRange a b) (fun m => hd 0 m)
          (ExpectedCharacterRange a b).
Proof.
  intros E H Ha Hb. unfold term_ok, parse_character_range.
  cbn [tcfg term_cfg_expected range_fast_both_ascii term_match]. unfold is_ascii.
  destruct cs as [|x cs].
  { rewrite E. destruct ((a <? 0x80) && (b <? 0x80)); reflexivity. }
  apply all_scalar_cons in H. destruct H as [Hx H].
  rewrite E, encode_str_cons. destruct (encode_cons_inv x cs) as [y [t Eyt]].
  destruct (encode_head_ascii x _ y t Hx Eyt) as [Hlt Heq].
  destruct ((a <? 0x80) && (b <? 0x80)) eqn:Hfast.
  - rewrite Eyt. rewrite !as_u8_small by lia.
    destruct (x <? 0x80) eqn:Hxa.
    + destruct (Heq Hlt) as [-> ->].
      destruct ((a <=? x) && (x <=? b)) eqn:Hin.
      * replace ((x <? a) || (b <? x)) with false by lia. cbn [length skipn hd].
        replace 1%nat with (length (encode_str [x])) by (rewrite encode_str_single, encode_ascii; auto).
        apply adv_then_ok; auto. rewrite E; apply encode_str_cons1.
      * replace ((x <? a) || (b <? x)) with true by lia. reflexivity.
    + idtac.
      replace ((a <=? x) && (x <=? b)) with false by lia.
      replace ((y <? a) || (b <? y)) with true by lia. reflexivity.
  - rewrite (decode1_encode x (encode_str cs)) by auto. rewrite Eyt.
    destruct ((a <=? x) && (x <=? b)) eqn:Hin.
    + replace ((x <? a) || (b <? x)) with false by lia. cbn [length skipn hd].
      rewrite <- encode_length, <- encode_str_single.
      apply adv_then_ok; auto. rewrite E; apply encode_str_cons1.
    + replace ((x <? a) || (b <? x)) with true by lia. reflexivity.
Qed.

(* ---- the case-insensitive matchers ------------------------------------- *)
Lemma to_ascii_lower_high b : 0x80 <= b -> to_ascii_lower b = b.
Proof. unfold to_ascii_lower. intro. replace ((0x41 <=? b) && (b <=? 0x5A)) with false by lia. reflexivity. Qed.

Lemma to_ascii_lower_low b : b < 0x80 -> to_ascii_lower b < 0x80.
Proof. unfold to_ascii_lower. intro. destruct ((0x41 <=? b) && (b <=? 0x5A)) eqn:E; lia. Qed.

Lemma ieq_chars s : forall cs, ascii_lower_str s -> all_scalar cs ->
  ieq tcfg s (encode_str cs) = list_eqb s (map lower_char (firstn (length s) cs)) /\
  (list_eqb s (map lower_char (firstn (length s) cs)) = true ->
   encode_str (firstn (length s) cs) = firstn (length s) cs /\ length (firstn (length s) cs) = length s).
Proof.
  induction s as [|x s IH]; intros cs Hs H.
  - cbn. auto.
  - inversion Hs as [|? ? [Hxa Hxl] Hs']; subst.
    destruct cs as [|c cs]; [cbn; split; [reflexivity|discriminate]|].
    apply all_scalar_cons in H. destruct H as [Hc H].
    rewrite encode_str_cons. destruct (encode_cons_inv c cs) as [b [t Ebt]].
    destruct (encode_head_ascii c _ b t Hc Ebt) as [Hlt Heq].
    rewrite Ebt. cbn [ieq length firstn map list_eqb].
    unfold lower_in. cbn [tcfg term_cfg_expected ilit_lowercases_input].
    unfold is_ascii in *. unfold lower_char at 1 3. unfold is_ascii.
    destruct (c <? 0x80) eqn:Hca.
    + destruct (Heq Hlt) as [-> ->].
      destruct (IH cs Hs' H) as [IH1 IH2]. rewrite IH1. split; [reflexivity|].
      intro Hall. apply andb_true_iff in Hall. destruct Hall as [_ Hall].
      destruct (IH2 Hall) as [E1 E2].
      rewrite encode_str_cons, encode_ascii, E1 by auto. cbn [app length]. auto.
    + idtac.
      rewrite to_ascii_lower_high by lia.
      replace (x =? b) with false by lia. replace (x =? c) with false by lia.
      cbn [andb]. split; [reflexivity|discriminate].
Qed.

Lemma parse_string_literal_insensitive_ok st cs s :
  rest st = encode_str cs -> all_scalar cs -> ascii_lower_str s ->
  term_ok (parse_string_literal_insensitive scfg tcfg st s) st cs (TmIStr s) (fun _ => tt)
          (ExpectedString s).
Proof.
  intros E H Hs. unfold term_ok, parse_string_literal_insensitive. cbn [term_match]. rewrite E.
  destruct (ieq_chars s cs Hs H) as [I1 I2]. rewrite I1.
  destruct (list_eqb s (map lower_char (firstn (length s) cs))) eqn:El; [|reflexivity].
  destruct (I2 eq_refl) as [E1 E2].
  rewrite E2. rewrite <- E2 at 1. rewrite <- E1 at 1.
  apply adv_then_ok.
  - rewrite E, <- encode_str_app, firstn_skipn. reflexivity.
  - rewrite <- (firstn_skipn (length s) cs) in H. apply all_scalar_app in H. tauto.
Qed.

Lemma parse_character_literal_insensitive_ok st cs c :
  rest st = encode_str cs -> all_scalar cs -> is_ascii c = true -> to_ascii_lower c = c ->
  term_ok (parse_character_literal_insensitive scfg tcfg st c) st cs (TmIChar c) (fun _ => c)
          (ExpectedCharacter c).
Proof.
  intros E H Hca Hcl. unfold term_ok, parse_character_literal_insensitive. cbn [term_match].
  unfold is_ascii in Hca.
  destruct cs as [|x cs]; [rewrite E; reflexivity|].
  apply all_scalar_cons in H. destruct H as [Hx H].
  rewrite E, encode_str_cons. destruct (encode_cons_inv x cs) as [b [t Ebt]].
  destruct (encode_head_ascii x _ b t Hx Ebt) as [Hlt Heq].
  rewrite Ebt. rewrite as_u8_small by lia.
  unfold lower_in. cbn [tcfg term_cfg_expected ilit_lowercases_input].
  unfold lower_char, is_ascii.
  destruct (x <? 0x80) eqn:Hxa.
  - destruct (Heq Hlt) as [-> ->].
    destruct (to_ascii_lower x =? c) eqn:Em; [|reflexivity].
    cbn [negb length skipn].
    replace 1%nat with (length (encode_str [x])) by (rewrite encode_str_single, encode_ascii; auto).
    apply adv_then_ok; auto. rewrite E; apply encode_str_cons1.
  - rewrite to_ascii_lower_high by lia.
    replace (b =? c) with false by lia. replace (x =? c) with false by lia. reflexivity.
Qed.

(* ---- parse_end_of_input ------------------------------------------------ *)
Lemma parse_end_of_input_ok st cs :
  rest st = encode_str cs -> all_scalar cs ->
  term_ok (parse_end_of_input scfg st) st cs TmEoi (fun _ => tt) ExpectedEoi.
Proof.
  intros E H. unfold term_ok, parse_end_of_input. destruct cs as [|c cs]; cbn [term_match].
  - rewrite E. cbn. unfold after. cbn. rewrite Nat.add_0_r. destruct st; cbn in *; subst; reflexivity.
  - apply all_scalar_cons in H. destruct H as [Hc H].
    rewrite E, encode_str_cons. destruct (encode_cons_inv c cs) as [b [t Ebt]]. rewrite Ebt. reflexivity.
Qed.

End Ok.

(* what a terminal matched is a prefix of the characters it was applied to *)
Lemma take_ws_prefix cs : cs = take_ws cs ++ skipn (length (take_ws cs)) cs.
Proof.
  induction cs as [|c cs IH]; [reflexivity|]. cbn. destruct (is_ws_char c); [|reflexivity].
  cbn. f_equal. exact IH.
Qed.

Lemma term_match_prefix t cs m : term_match t cs = Some m -> cs = m ++ skipn (length m) cs.
Proof.
  destruct t; cbn.
  - destruct cs; [discriminate|]. intro H; injection H as <-. reflexivity.
  - destruct cs; [discriminate|]. destruct (n =? c)%N; [|discriminate]. intro H; injection H as <-. reflexivity.
  - destruct cs; [discriminate|]. destruct ((a <=? n)%N && (n <=? b)%N); [|discriminate].
    intro H; injection H as <-. reflexivity.
  - destruct (list_eqb s (firstn (length s) cs)) eqn:E; [|discriminate].
    intro H; injection H as <-. apply list_eqb_eq in E. rewrite E at 1.
    rewrite E at 2. rewrite firstn_length.
    destruct (Nat.le_gt_cases (length s) (length cs)).
    + rewrite Nat.min_l by auto. symmetry. apply firstn_skipn.
    + rewrite Nat.min_r by lia. rewrite firstn_all2 by lia. rewrite skipn_all. symmetry. apply app_nil_r.
  - destruct (list_eqb s (map lower_char (firstn (length s) cs))); [|discriminate].
    intro H; injection H as <-. rewrite firstn_length.
    destruct (Nat.le_gt_cases (length s) (length cs)).
    + rewrite Nat.min_l by auto. symmetry. apply firstn_skipn.
    + rewrite Nat.min_r by lia. rewrite firstn_all2 by lia. rewrite skipn_all. symmetry. apply app_nil_r.
  - destruct cs; [discriminate|]. destruct (lower_char n =? c)%N; [|discriminate].
    intro H; injection H as <-. reflexivity.
  - destruct cs; [|discriminate]. intro H; injection H as <-. reflexivity.
  - intro H; injection H as <-. apply take_ws_prefix.
Qed.

