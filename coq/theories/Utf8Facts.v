From Coq Require Import ZArith ZifyBool ZifyNat ZifyN.
From PegV Require Import Utf8.
Ltac Zify.zify_post_hook ::= Z.div_mod_to_equations.
Local Open Scope N_scope.

Lemma cons_eq {A} (a b : A) l m : a = b -> l = m -> a :: l = b :: m.
Proof. intros; subst; reflexivity. Qed.

Lemma encode_length c : length (encode c) = utf8_len c.
Proof.
  unfold encode, utf8_len.
  destruct (c <? 0x80); [reflexivity|].
  destruct (c <? 0x800); [reflexivity|].
  destruct (c <? 0x10000); reflexivity.
Qed.

Lemma utf8_len_pos c : (1 <= utf8_len c <= 4)%nat.
Proof.
  unfold utf8_len. destruct (c <? 0x80); [lia|].
  destruct (c <? 0x800); [lia|]. destruct (c <? 0x10000); lia.
Qed.

Lemma encode_nonempty c : encode c <> [].
Proof.
  intro H. pose proof (encode_length c) as L. rewrite H in L.
  pose proof (utf8_len_pos c). simpl in L. lia.
Qed.

(* --- decode1 inverts encode, whatever follows -------------------------- *)

Lemma decode1_encode c r :
  is_scalar c = true -> decode1 (encode c ++ r) = Some (c, utf8_len c).
Proof.
  unfold is_scalar, encode, utf8_len; intro Hs.
  destruct (c <? 0x80) eqn:H1.
  { cbn [app decode1]. rewrite H1. reflexivity. }
  destruct (c <? 0x800) eqn:H2.
  { cbn [app decode1].
    replace (0xC0 + c / 64 <? 0x80) with false by lia.
    replace (0xC0 + c / 64 <? 0xC2) with false by lia.
    replace (0xC0 + c / 64 <? 0xE0) with true by lia.
    unfold is_cont.
    replace ((0x80 <=? 0x80 + c mod 64) && (0x80 + c mod 64 <? 0xC0)) with true by lia.
    f_equal. f_equal. lia. }
  destruct (c <? 0x10000) eqn:H3.
  { cbn [app decode1].
    replace (0xE0 + c / 4096 <? 0x80) with false by lia.
    replace (0xE0 + c / 4096 <? 0xC2) with false by lia.
    replace (0xE0 + c / 4096 <? 0xE0) with false by lia.
    replace (0xE0 + c / 4096 <? 0xF0) with true by lia.
    unfold is_cont.
    replace ((0x80 <=? 0x80 + (c / 64) mod 64) && (0x80 + (c / 64) mod 64 <? 0xC0)) with true by lia.
    replace ((0x80 <=? 0x80 + c mod 64) && (0x80 + c mod 64 <? 0xC0)) with true by lia.
    cbn [andb].
    replace ((0xE0 + c / 4096 - 0xE0) * 4096 + (0x80 + (c / 64) mod 64 - 0x80) * 64 +
             (0x80 + c mod 64 - 0x80)) with c by lia.
    replace (0x800 <=? c) with true by lia. cbn [andb].
    unfold is_scalar. rewrite Hs. reflexivity. }
  { cbn [app decode1].
    replace (0xF0 + c / 262144 <? 0x80) with false by lia.
    replace (0xF0 + c / 262144 <? 0xC2) with false by lia.
    replace (0xF0 + c / 262144 <? 0xE0) with false by lia.
    replace (0xF0 + c / 262144 <? 0xF0) with false by lia.
    replace (0xF0 + c / 262144 <? 0xF5) with true by lia.
    unfold is_cont.
    replace ((0x80 <=? 0x80 + (c / 4096) mod 64) && (0x80 + (c / 4096) mod 64 <? 0xC0)) with true by lia.
    replace ((0x80 <=? 0x80 + (c / 64) mod 64) && (0x80 + (c / 64) mod 64 <? 0xC0)) with true by lia.
    replace ((0x80 <=? 0x80 + c mod 64) && (0x80 + c mod 64 <? 0xC0)) with true by lia.
    cbn [andb].
    replace ((0xF0 + c / 262144 - 0xF0) * 262144 + (0x80 + (c / 4096) mod 64 - 0x80) * 4096 +
             (0x80 + (c / 64) mod 64 - 0x80) * 64 + (0x80 + c mod 64 - 0x80)) with c by lia.
    replace (0x10000 <=? c) with true by lia.
    replace (c <? 0x110000) with true by lia. reflexivity. }
Qed.

(* --- UTF-8 is a prefix code -------------------------------------------- *)

Lemma skipn_app_exact {A} (l r : list A) : skipn (length l) (l ++ r) = r.
Proof. induction l; simpl; auto. Qed.

Lemma encode_prefix_code c1 c2 r1 r2 :
  is_scalar c1 = true -> is_scalar c2 = true ->
  encode c1 ++ r1 = encode c2 ++ r2 -> c1 = c2 /\ r1 = r2.
Proof.
  intros H1 H2 E.
  pose proof (decode1_encode c1 r1 H1) as D1.
  pose proof (decode1_encode c2 r2 H2) as D2.
  rewrite E in D1. rewrite D1 in D2. injection D2 as Ec El.
  split; [exact Ec|]. subst c2.
  apply app_inv_head in E. exact E.
Qed.

(* --- head-byte classification ------------------------------------------ *)

Lemma encode_head_ascii c r b t :
  is_scalar c = true -> encode c ++ r = b :: t ->
  (b <? 0x80) = (c <? 0x80) /\ (b <? 0x80 = true -> b = c /\ t = r).
Proof.
  unfold encode. intros Hs E.
  destruct (c <? 0x80) eqn:H1.
  { cbn [app] in E. injection E as <- <-. rewrite H1. auto. }
  destruct (c <? 0x800) eqn:H2.
  { cbn [app] in E. injection E as <- <-. split; [lia|]. intro; lia. }
  destruct (c <? 0x10000) eqn:H3.
  { cbn [app] in E. injection E as <- <-. split; [lia|]. intro; lia. }
  { cbn [app] in E. injection E as <- <-. split; [lia|]. intro; lia. }
Qed.

Lemma encode_head_not_cont c r b t :
  is_scalar c = true -> encode c ++ r = b :: t -> is_cont b = false.
Proof.
  unfold encode, is_cont, is_scalar. intros Hs E.
  destruct (c <? 0x80) eqn:H1; [cbn [app] in E; injection E as <- <-; lia|].
  destruct (c <? 0x800) eqn:H2; [cbn [app] in E; injection E as <- <-; lia|].
  destruct (c <? 0x10000) eqn:H3; cbn [app] in E; injection E as <- <-; lia.
Qed.

Lemma encode_bytes_lt256 c :
  is_scalar c = true -> Forall (fun b => b < 256) (encode c).
Proof.
  unfold encode, is_scalar. intros Hs.
  destruct (c <? 0x80) eqn:H1; [repeat constructor; lia|].
  destruct (c <? 0x800) eqn:H2; [repeat constructor; lia|].
  destruct (c <? 0x10000) eqn:H3; repeat constructor; lia.
Qed.

Lemma encode_tail_cont c :
  is_scalar c = true -> Forall (fun b => is_cont b = true) (tl (encode c)).
Proof.
  unfold encode, is_scalar, is_cont. intros Hs.
  destruct (c <? 0x80) eqn:H1; [constructor|].
  destruct (c <? 0x800) eqn:H2; [cbn [tl]; repeat constructor; lia|].
  destruct (c <? 0x10000) eqn:H3; cbn [tl]; repeat constructor; lia.
Qed.

Lemma encode_ascii c : c <? 0x80 = true -> encode c = [c].
Proof. unfold encode. intros ->. reflexivity. Qed.

Lemma ascii_scalar c : c <? 0x80 = true -> is_scalar c = true.
Proof. unfold is_scalar. intro. lia. Qed.

(* --- strings ------------------------------------------------------------ *)

Lemma encode_str_cons c cs : encode_str (c :: cs) = encode c ++ encode_str cs.
Proof. reflexivity. Qed.

Lemma encode_str_app a b : encode_str (a ++ b) = encode_str a ++ encode_str b.
Proof. unfold encode_str. apply flat_map_app. Qed.

Lemma all_scalar_cons c cs : all_scalar (c :: cs) <-> is_scalar c = true /\ all_scalar cs.
Proof. unfold all_scalar. split; [intro H; inversion H; auto| intros [? ?]; constructor; auto]. Qed.

Lemma all_scalar_app a b : all_scalar (a ++ b) <-> all_scalar a /\ all_scalar b.
Proof. unfold all_scalar. apply Forall_app. Qed.

Lemma valid_nil : valid_utf8 [].
Proof. exists []. split; [constructor|reflexivity]. Qed.

Lemma valid_encode_str cs : all_scalar cs -> valid_utf8 (encode_str cs).
Proof. intros; exists cs; auto. Qed.

Lemma encode_str_inj a b :
  all_scalar a -> all_scalar b -> encode_str a = encode_str b -> a = b.
Proof.
  revert b. induction a as [|c a IH]; intros b Ha Hb E.
  - destruct b as [|d b]; [reflexivity|].
    rewrite encode_str_cons in E. cbn in E.
    symmetry in E. apply app_eq_nil in E. destruct E as [E _].
    exfalso. eapply encode_nonempty; eauto.
  - destruct b as [|d b].
    + rewrite encode_str_cons in E. cbn in E. apply app_eq_nil in E. destruct E as [E _].
      exfalso. eapply encode_nonempty; eauto.
    + rewrite !encode_str_cons in E.
      apply all_scalar_cons in Ha. apply all_scalar_cons in Hb.
      destruct Ha as [Hc Ha]. destruct Hb as [Hd Hb].
      apply encode_prefix_code in E; auto. destruct E as [-> E].
      f_equal. apply IH; auto.
Qed.

(* a valid suffix after a valid prefix: cutting at the end of a valid prefix
   is cutting on a character boundary *)
Lemma encode_str_prefix_split s cs r :
  all_scalar s -> all_scalar cs ->
  encode_str cs = encode_str s ++ r ->
  exists cs', cs = s ++ cs' /\ r = encode_str cs'.
Proof.
  revert cs. induction s as [|c s IH]; intros cs Hs Hcs E.
  - exists cs. split; [reflexivity|]. cbn in E. auto.
  - destruct cs as [|d cs].
    + rewrite encode_str_cons, <- app_assoc in E. change (encode_str []) with (@nil N) in E.
      symmetry in E. apply app_eq_nil in E. destruct E as [E _]. exfalso. eapply encode_nonempty; eauto.
    + rewrite !encode_str_cons, <- app_assoc in E.
      apply all_scalar_cons in Hs. apply all_scalar_cons in Hcs.
      destruct Hs as [Hc Hs]. destruct Hcs as [Hd Hcs].
      apply encode_prefix_code in E; auto. destruct E as [-> E].
      destruct (IH cs Hs Hcs E) as [cs' [-> ->]].
      exists cs'. auto.
Qed.

Lemma valid_suffix s r :
  valid_utf8 s -> valid_utf8 (s ++ r) -> valid_utf8 r.
Proof.
  intros [a [Ha ->]] [b [Hb E]].
  symmetry in E. apply encode_str_prefix_split in E; auto.
  destruct E as [cs' [-> ->]]. apply all_scalar_app in Hb. destruct Hb.
  exists cs'. auto.
Qed.

(* --- prefix tests -------------------------------------------------------- *)

Fixpoint starts_with (p bs : bytes) : bool :=
  match p, bs with
  | [], _ => true
  | x :: p', y :: bs' => (x =? y) && starts_with p' bs'
  | _ :: _, [] => false
  end.

Lemma starts_with_spec p bs :
  starts_with p bs = true <-> exists r, bs = p ++ r.
Proof.
  revert bs. induction p as [|x p IH]; intros bs.
  - cbn. split; [intros _; exists bs; reflexivity| auto].
  - destruct bs as [|y bs]; cbn.
    + split; [discriminate| intros [r E]; discriminate].
    + rewrite andb_true_iff, IH, N.eqb_eq. split.
      * intros [-> [r ->]]. exists r. reflexivity.
      * intros [r E]. injection E as -> ->. split; [reflexivity|exists r; reflexivity].
Qed.

Lemma starts_with_app p r : starts_with p (p ++ r) = true.
Proof. apply starts_with_spec. exists r. reflexivity. Qed.

(* byte-level prefix on valid strings = character-level prefix *)
Lemma starts_with_chars s cs :
  all_scalar s -> all_scalar cs ->
  (starts_with (encode_str s) (encode_str cs) = true <-> exists cs', cs = s ++ cs').
Proof.
  intros Hs Hcs. rewrite starts_with_spec. split.
  - intros [r E]. apply encode_str_prefix_split in E; auto.
    destruct E as [cs' [-> _]]. exists cs'. reflexivity.
  - intros [cs' ->]. exists (encode_str cs'). apply encode_str_app.
Qed.

(* --- counting characters ------------------------------------------------ *)

Lemma count_lead_app a b : count_lead (a ++ b) = (count_lead a + count_lead b)%nat.
Proof. unfold count_lead. rewrite filter_app, app_length. reflexivity. Qed.

Lemma count_lead_encode c : is_scalar c = true -> count_lead (encode c) = 1%nat.
Proof.
  unfold encode, count_lead, is_cont, is_scalar. intros Hs.
  destruct (c <? 0x80) eqn:H1.
  { cbn [filter]. replace (negb ((0x80 <=? c) && (c <? 0xC0))) with true by lia. reflexivity. }
  destruct (c <? 0x800) eqn:H2.
  { cbn [filter].
    replace (negb ((0x80 <=? 0xC0 + c / 64) && (0xC0 + c / 64 <? 0xC0))) with true by lia.
    replace (negb ((0x80 <=? 0x80 + c mod 64) && (0x80 + c mod 64 <? 0xC0))) with false by lia.
    reflexivity. }
  destruct (c <? 0x10000) eqn:H3.
  { cbn [filter].
    replace (negb ((0x80 <=? 0xE0 + c / 4096) && (0xE0 + c / 4096 <? 0xC0))) with true by lia.
    replace (negb ((0x80 <=? 0x80 + (c / 64) mod 64) && (0x80 + (c / 64) mod 64 <? 0xC0))) with false by lia.
    replace (negb ((0x80 <=? 0x80 + c mod 64) && (0x80 + c mod 64 <? 0xC0))) with false by lia.
    reflexivity. }
  { cbn [filter].
    replace (negb ((0x80 <=? 0xF0 + c / 262144) && (0xF0 + c / 262144 <? 0xC0))) with true by lia.
    replace (negb ((0x80 <=? 0x80 + (c / 4096) mod 64) && (0x80 + (c / 4096) mod 64 <? 0xC0))) with false by lia.
    replace (negb ((0x80 <=? 0x80 + (c / 64) mod 64) && (0x80 + (c / 64) mod 64 <? 0xC0))) with false by lia.
    replace (negb ((0x80 <=? 0x80 + c mod 64) && (0x80 + c mod 64 <? 0xC0))) with false by lia.
    reflexivity. }
Qed.

Lemma count_lead_encode_str cs : all_scalar cs -> count_lead (encode_str cs) = length cs.
Proof.
  induction cs as [|c cs IH]; intros H; [reflexivity|].
  apply all_scalar_cons in H. destruct H as [Hc H].
  rewrite encode_str_cons, count_lead_app, count_lead_encode, IH; auto.
Qed.

(* --- boundaries --------------------------------------------------------- *)

Lemma is_boundary_app_exact a b :
  valid_utf8 b -> is_boundary (a ++ b) (length a) = true.
Proof.
  intros [cs [Hcs ->]]. unfold is_boundary. rewrite app_length.
  destruct cs as [|c cs].
  - cbn. rewrite Nat.add_0_r, Nat.compare_refl. reflexivity.
  - apply all_scalar_cons in Hcs. destruct Hcs as [Hc Hcs].
    rewrite encode_str_cons.
    destruct (encode c ++ encode_str cs) as [|b t] eqn:E.
    + apply app_eq_nil in E. destruct E as [E _]. exfalso; eapply encode_nonempty; eauto.
    + replace (length a ?= length a + length (b :: t))%nat with Lt
        by (symmetry; apply Nat.compare_lt_iff; cbn; lia).
      rewrite app_nth2 by lia. rewrite Nat.sub_diag. cbn [nth].
      erewrite encode_head_not_cont; eauto.
Qed.

(* --- the decoder accepts exactly valid strings -------------------------- *)

Lemma decode_all_encode_str fuel cs :
  all_scalar cs -> (length (encode_str cs) <= fuel)%nat ->
  decode_all fuel (encode_str cs) = Some cs.
Proof.
  revert cs. induction fuel as [|f IH]; intros cs Hcs Hlen.
  - destruct cs as [|c cs]; [reflexivity|].
    rewrite encode_str_cons, app_length, encode_length in Hlen.
    pose proof (utf8_len_pos c). lia.
  - destruct cs as [|c cs]; [reflexivity|].
    apply all_scalar_cons in Hcs. destruct Hcs as [Hc Hcs].
    rewrite encode_str_cons in *.
    assert (Hl : (length (encode_str cs) <= f)%nat).
    { rewrite app_length, encode_length in Hlen. pose proof (utf8_len_pos c). lia. }
    clear Hlen.
    cbn [decode_all].
    destruct (encode c ++ encode_str cs) as [|b t] eqn:E.
    { apply app_eq_nil in E. destruct E as [E _]. exfalso; eapply encode_nonempty; eauto. }
    rewrite <- E. rewrite decode1_encode by auto.
    rewrite <- encode_length, skipn_app_exact.
    rewrite IH; auto.
Qed.

Lemma decode_str_valid cs : all_scalar cs -> decode_str (encode_str cs) = Some cs.
Proof. intros. apply decode_all_encode_str; auto. Qed.
