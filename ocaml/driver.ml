(* Runs the extracted model on the request lines the Rust driver also gets. *)
open Model
open Conv

let split_tab s = String.split_on_char '\t' s

let pretty cfg args =
  match args with
  | [text; pos; _] ->
    (match from_parse_error cfg (unhex text) (nat_of_int (int_of_string pos)) with
     | PPanic -> "PANIC"
     | PShown (l, c, s) -> Printf.sprintf "OK\t%d\t%d\t%s" (int_of_nat l) (int_of_nat c) (hex s))
  | _ -> "BADARGS"

let () =
  let pcfg = ref cfg_fixed in
  (try
     while true do
       let line = input_line stdin in
       let resp =
         match split_tab line with
         | "pretty_cfg" :: [a; b; c] ->
           pcfg := { iter_stop_ge = (a = "1"); find_end_ge = (b = "1"); col_by_position = (c = "1") };
           "SET"
         | "pretty" :: args -> pretty !pcfg args
         | other :: _ -> "UNKNOWN\t" ^ other
         | [] -> "EMPTY"
       in
       print_endline resp
     done
   with End_of_file -> ())
