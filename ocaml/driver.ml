(* Runs the extracted model on the request lines the Rust drivers also get. *)
open Model
open Conv

let split_tab s = String.split_on_char '\t' s

(* ---------- grammar reader ---------- *)
let name_of_atom a =
  if String.length a >= 2 && String.sub a 0 2 = "n:" then unhex (String.sub a 2 (String.length a - 2))
  else failwith ("bad name atom " ^ a)

let num a = n_of_int (int_of_string a)
let onum a = if a = "-" then None else Some (num a)

let item = function
  | Sexp.List [Sexp.Atom "hexa"; Sexp.Atom a; Sexp.Atom b] -> SIHexa (num a, num b)
  | Sexp.List [Sexp.Atom "simple"; Sexp.Atom k] ->
    SISimple (match k with
        | "backslash" -> EscBackslash | "cr" -> EscCarriageReturn | "dquote" -> EscDQuote
        | "nl" -> EscNewline | "quote" -> EscQuote | "tab" -> EscTab | _ -> failwith "simple")
  | Sexp.List [Sexp.Atom "utf8"; Sexp.Atom a; Sexp.Atom b; Sexp.Atom c; Sexp.Atom d; Sexp.Atom e; Sexp.Atom f] ->
    SIUtf8 (num a, onum b, onum c, onum d, onum e, onum f)
  | Sexp.List [Sexp.Atom "char"; Sexp.Atom a] -> SIChar (num a)
  | _ -> failwith "item"

let rec expr = function
  | Sexp.List (Sexp.Atom "choice" :: l) -> EChoice (List.map expr l)
  | Sexp.List (Sexp.Atom "seq" :: l) -> ESeq (List.map expr l)
  | Sexp.List [Sexp.Atom "group"; b] -> EGroup (expr b)
  | Sexp.List [Sexp.Atom "opt"; b] -> EOptional (expr b)
  | Sexp.List [Sexp.Atom "closure"; b; Sexp.Atom p] -> EClosure (expr b, p = "1")
  | Sexp.List [Sexp.Atom "neg"; b] -> ENeg (expr b)
  | Sexp.List [Sexp.Atom "pos"; b] -> EPos (expr b)
  | Sexp.List [Sexp.Atom "range"; a; b] -> ERange (item a, item b)
  | Sexp.List (Sexp.Atom "lit" :: Sexp.Atom i :: l) -> ELit (i = "1", List.map item l)
  | Sexp.List [Sexp.Atom "eoi"] -> EEoi
  | Sexp.List [Sexp.Atom "include"; Sexp.Atom n] -> EInclude (name_of_atom n)
  | Sexp.List [Sexp.Atom "field"; fn; Sexp.Atom b; Sexp.Atom t] ->
    let f = match fn with
      | Sexp.Atom "none" -> FNone
      | Sexp.Atom "override" -> FOverride
      | Sexp.List [Sexp.Atom "named"; Sexp.Atom n] -> FNamed (name_of_atom n)
      | _ -> failwith "field name" in
    EField (f, b = "1", name_of_atom t)
  | _ -> failwith "expr"

let path = function
  | Sexp.List l -> List.map (function Sexp.Atom a -> name_of_atom a | _ -> failwith "path") l
  | _ -> failwith "path"

let directive = function
  | Sexp.Atom "string" -> DString | Sexp.Atom "no_skip_ws" -> DNoSkipWs | Sexp.Atom "export" -> DExport
  | Sexp.Atom "position" -> DPosition | Sexp.Atom "memoize" -> DMemoize | Sexp.Atom "leftrec" -> DLeftrec
  | Sexp.List [Sexp.Atom "check"; p] -> DCheck (path p)
  | _ -> failwith "directive"

let grule = function
  | Sexp.List [Sexp.Atom "rule"; Sexp.List (Sexp.Atom "dirs" :: ds); Sexp.Atom n; e] ->
    GRule { r_directives = List.map directive ds; r_name = name_of_atom n; r_def = expr e }
  | Sexp.List [Sexp.Atom "charrule"; Sexp.List (Sexp.Atom "checks" :: cs); Sexp.Atom n; Sexp.List (Sexp.Atom "parts" :: ps)] ->
    let part = function
      | Sexp.List [Sexp.Atom "cchar"; i] -> CPChar (item i)
      | Sexp.List [Sexp.Atom "crange"; a; b] -> CPRange (item a, item b)
      | Sexp.List [Sexp.Atom "cident"; Sexp.Atom n] -> CPIdent (name_of_atom n)
      | _ -> failwith "char part" in
    GChar { cr_checks = List.map path cs; cr_name = name_of_atom n; cr_choices = List.map part ps }
  | Sexp.List [Sexp.Atom "extern"; f; r; Sexp.Atom n] ->
    GExtern { er_function = path f;
              er_return = (match r with Sexp.Atom "noret" -> None | p -> Some (path p));
              er_name = name_of_atom n }
  | _ -> failwith "grule"

let grammar_of_sexp = function
  | Sexp.List (Sexp.Atom "grammar" :: rs) -> List.map grule rs
  | _ -> failwith "grammar"

(* ---------- printers ---------- *)
let spec_str = function
  | ExpectedAnyCharacter -> "any"
  | ExpectedCharacter c -> Printf.sprintf "char:%d" (int_of_n c)
  | ExpectedCharacterRange (a, b) -> Printf.sprintf "range:%d:%d" (int_of_n a) (int_of_n b)
  | ExpectedString s -> "str:" ^ hex s
  | ExpectedCharacterClass n -> "class:" ^ hex n
  | ExpectedEoi -> "eoi"
  | NegativeLookaheadFailed -> "neg"
  | CheckFunctionFailed f -> "check:" ^ hex f
  | ExternRuleFailed m -> "extern:" ^ hex m
  | LeftRecursionSentinel -> "sentinel"
  | OtherError -> "other"

let rec value_str v =
  match v with
  | VUnit -> "()"
  | VChar c -> Printf.sprintf "(c %d)" (int_of_n c)
  | VStr s -> Printf.sprintf "(s %s)" (hex s)
  | VNum n -> Printf.sprintf "(n %d)" (int_of_n n)
  | VNone -> "none"
  | VSome v -> Printf.sprintf "(some %s)" (value_str v)
  | VList l -> "(list" ^ String.concat "" (List.map (fun x -> " " ^ value_str x) l) ^ ")"
  | VEnum (n, v) -> Printf.sprintf "(enum %s %s)" (hex n) (value_str v)
  | VStruct (n, fs, pos) ->
    "(struct " ^ hex n
    ^ String.concat "" (List.map (fun (f, x) -> Printf.sprintf " (f %s %s)" (hex f) (value_str x)) fs)
    ^ (match pos with Some (a, b) -> Printf.sprintf " (pos %d %d)" (int_of_nat a) (int_of_nat b) | None -> "")
    ^ ")"

let trace_str (t : tev list) =
  String.concat ";" (List.rev_map (function
      | TStart (n, o) -> Printf.sprintf "S:%s:%d" (hex n) (int_of_nat o)
      | TResOk o -> Printf.sprintf "O:%d" (int_of_nat o)
      | TResErr e -> Printf.sprintf "E:%d:%s" (int_of_nat e.e_pos) (spec_str e.e_spec)
      | TInfo k -> Printf.sprintf "I:%d" (int_of_nat k)) t)

let ulog_str (u : ustate) =
  String.concat ";" (List.rev_map (fun (n, k) -> Printf.sprintf "%s:%d" (hex n) (int_of_nat k)) u.u_log)

let panic_str = function
  | PanicIndex -> "index" | PanicSplit -> "split" | PanicShape -> "shape"
  | PanicUncompilable -> "uncompilable" | PanicUndefinedRule -> "undefined-rule"

let grammars : (Stdlib.String.t, grammar) Hashtbl.t = Hashtbl.create 64

let do_parse args =
  match args with
  | gid :: rule :: input :: _ ->
    let g = Hashtbl.find grammars gid in
    let inp = unhex input in
    let rec attempt fuel =
      let (res, gl) = m_parse_std g (nat_of_int fuel) (unhex rule) inp u_init in
      match res with
      | MFuel -> if fuel < 40000 then attempt (fuel * 8) else "FUEL"
      | MPanic p -> "PANIC\t" ^ panic_str p
      | MOk (v, _) ->
        Printf.sprintf "OK\t%s\t%s\t%s\t%s" (value_str v) (trace_str gl.g_trace) (ulog_str gl.g_user)
          (String.concat ";" (List.rev_map (fun (n, k) -> Printf.sprintf "%s:%d" (hex n) (int_of_nat k)) gl.g_evals))
      | MErr e ->
        Printf.sprintf "ERR\t%d\t%s\t%s\t%s\t%s" (int_of_nat e.e_pos) (spec_str e.e_spec) (trace_str gl.g_trace)
          (ulog_str gl.g_user)
          (String.concat ";" (List.rev_map (fun (n, k) -> Printf.sprintf "%s:%d" (hex n) (int_of_nat k)) gl.g_evals))
    in
    attempt (300 + 40 * List.length inp)
  | _ -> "BADARGS"

let do_spec args =
  match args with
  | gid :: rule :: input :: _ ->
    let g = Hashtbl.find grammars gid in
    (match decode_str (unhex input) with
     | None -> "BADUTF8"
     | Some cs ->
       let rec attempt fuel =
         match s_parse_std g true (nat_of_int fuel) (unhex rule) cs with
         | SFuel -> if fuel < 40000 then attempt (fuel * 8) else "FUEL"
         | SStuck -> "STUCK"
         | SOk (v, _, o, flog) -> Printf.sprintf "OK\t%s\t%d" (value_str v) (int_of_nat o)
         | SFail flog ->
           (match furthest_latest None flog with
            | Some e -> Printf.sprintf "ERR\t%d\t%s" (int_of_nat e.e_pos) (spec_str e.e_spec)
            | None -> "ERR\t-\tnolog")
       in
       attempt (300 + 40 * List.length cs))
  | _ -> "BADARGS"

let do_term args =
  match args with
  | [kind; p1; p2; input] ->
    let st = init_state (unhex input) in
    let fin r f = match r with
      | TOk (v, st') -> Printf.sprintf "OK\t%d\t%s" (int_of_nat st'.off) (f v)
      | TErr e -> Printf.sprintf "ERR\t%d\t%s" (int_of_nat e.e_pos) (spec_str e.e_spec)
      | TPanic -> "PANIC"
      | TSplit -> "PANIC" in
    let num v = string_of_int (int_of_n v) in
    let dash _ = "-" in
    (match kind with
     | "char" -> fin (parse_char scfg_run st) num
     | "ws" -> fin (parse_Whitespace st) dash
     | "eoi" -> fin (parse_end_of_input scfg_run st) dash
     | "lit" -> fin (parse_string_literal scfg_run st (unhex p1)) dash
     | "ilit" -> fin (parse_string_literal_insensitive scfg_run tcfg_run st (unhex p1)) dash
     | "clit" -> fin (parse_character_literal scfg_run tcfg_run st (n_of_int (int_of_string p1))) num
     | "iclit" -> fin (parse_character_literal_insensitive scfg_run tcfg_run st (n_of_int (int_of_string p1))) num
     | "range" -> fin (parse_character_range scfg_run tcfg_run st (n_of_int (int_of_string p1)) (n_of_int (int_of_string p2))) num
     | _ -> "BADKIND")
  | _ -> "BADARGS"

(* ---- build script model: grammar texts are registered with their real header and code ---- *)
let bs_table : (Stdlib.String.t, (n list * n list * n list option)) Hashtbl.t = Hashtbl.create 8
(* prefix text -> the header line generate_prefix_header prints for it *)
let bs_prefix_lines : (n list, n list) Hashtbl.t = Hashtbl.create 8

let do_bs args =
  (* ops separated by ';' : Ek (edit to registered grammar k, E- = unreadable), P<hex>, F0/F1, D, R *)
  match args with
  | [ops] ->
    let lookup_hdr g p =
      let r = ref [] in Hashtbl.iter (fun _ (t, h, _) -> if t = g then r := h) bs_table;
      !r @ (try Hashtbl.find bs_prefix_lines p with Not_found -> failwith "prefix line not registered") in
    let lookup_code g = let r = ref None in Hashtbl.iter (fun _ (t, _, c) -> if t = g then r := c) bs_table; !r in
    let fmt x = x in
    let conf = ref { prefix = []; format = false } in
    let fs = ref { gfile = None; dest = None; writes = O } in
    let out = Buffer.create 64 in
    List.iter (fun o ->
        if o <> "" then begin
          let arg = String.sub o 1 (String.length o - 1) in
          (match o.[0] with
           | 'E' -> fs := { !fs with gfile = (if arg = "-" then None else let (t, _, _) = Hashtbl.find bs_table arg in Some t) }
           | 'P' -> conf := { !conf with prefix = unhex arg }
           | 'F' -> conf := { !conf with format = (arg = "1") }
           | 'D' -> fs := { !fs with dest = None }
           | 'R' ->
             let (r, s') = bs_run lookup_hdr lookup_code fmt !conf !fs in
             fs := s';
             Buffer.add_string out (match r with ROk -> "O" | RErr -> "E");
             Buffer.add_string out (Printf.sprintf ":%d:%s;" (int_of_nat s'.writes)
                                      (match s'.dest with None -> "-" | Some d -> Digest.to_hex (Digest.string (hex d))))
           | _ -> failwith "bs op")
        end) (String.split_on_char ';' ops);
    Buffer.contents out
  | _ -> "BADARGS"

(* ---- the compiler model ---- *)
let rec rtype_str = function
  | RName n -> "N" ^ hex n
  | RChar -> "C"
  | RString -> "S"
  | RPath p -> "P" ^ String.concat "." (List.map hex p)
  | RBox t -> "B(" ^ rtype_str t ^ ")"
  | ROption t -> "O(" ^ rtype_str t ^ ")"
  | RVec t -> "V(" ^ rtype_str t ^ ")"

let decl_str = function
  | DStruct (n, fs, pos) ->
    Printf.sprintf "struct:%s:%d:%s" (hex n) (if pos then 1 else 0)
      (String.concat "," (List.map (fun (f, t) -> hex f ^ "=" ^ rtype_str t) fs))
  | DUnit n -> "unit:" ^ hex n
  | DAlias (n, t) -> Printf.sprintf "alias:%s:%s" (hex n) (rtype_str t)
  | DEnum (n, vs) ->
    Printf.sprintf "enum:%s:%s" (hex n) (String.concat "," (List.map (fun (v, b) -> hex v ^ (if b then "*" else "")) vs))

let gf_err_str = function
  | GENegLookaheadFields -> "neg-lookahead-fields"
  | GEPosLookaheadFields -> "pos-lookahead-fields"
  | GEIncludeNotFound n -> "include-not-found:" ^ hex n

let cerr_str = function
  | CEFields e -> gf_err_str e
  | CEStringExport -> "string-export"
  | CEWhitespaceSkips -> "whitespace-skips"
  | CEMemoizeNoClone -> "memoize-no-clone"
  | CEPositionVariant t -> "position-variant:" ^ hex t
  | CEInvalidCodepoint n -> Printf.sprintf "invalid-codepoint:%d" (int_of_n n)
  | CENonAsciiInsensitive -> "non-ascii-insensitive"
  | CEOverrideExport -> "override-export"
  | CEOverridePosition -> "override-position"
  | CEEnumOverrideArity -> "enum-override-arity"
  | CEMixOverride -> "mix-override"

let names_of s = if s = "-" || s = "" then [] else List.map unhex (String.split_on_char ',' s)

let do_compile args =
  match args with
  | [gid; derives; ctx] ->
    let g = Hashtbl.find grammars gid in
    let s = { cs_derives = names_of derives; cs_ctx = (if ctx = "-" then None else Some (names_of ctx)) } in
    let tail = Printf.sprintf "idents=%d\tderives=%d" (if idents_ok_std g x_raw_kw_guard_run s then 1 else 0) (if derives_ok_std s then 1 else 0) in
    (match compile_std g s with
     | GOk ds -> "OK\t" ^ String.concat ";" (List.map decl_str ds) ^ "\t" ^ tail
     | GFail (i, n, e) -> Printf.sprintf "ERR\t%d\t%s\t%s\t%s" (int_of_nat i) (hex n) (cerr_str e) tail
     | GPanic (i, p) -> Printf.sprintf "PANIC\t%d\t%s\t%s" (int_of_nat i) (match p with PDigit -> "digit" | PNoTypes -> "no-types") tail
     | GOverflow i -> Printf.sprintf "OVERFLOW\t%d\t%s" (int_of_nat i) tail
     | GBadIdent n -> Printf.sprintf "ERR\t0\t\tbad-ident:%s\t%s" (hex n) tail
     | GCycle -> Printf.sprintf "ERR\t0\t\tinclude-cycle\t%s" tail)
  | _ -> "BADARGS"

let pretty args =
  match args with
  | [text; pos; _] ->
    (match pretty_exec (unhex text) (nat_of_int (int_of_string pos)) with
     | PPanic -> "PANIC"
     | PShown (l, c, s) -> Printf.sprintf "OK\t%d\t%d\t%s" (int_of_nat l) (int_of_nat c) (hex s))
  | _ -> "BADARGS"

let () =
  (try
     while true do
       let line = input_line stdin in
       let resp =
         try
           match split_tab line with
           | "pretty" :: args -> pretty args
           | ["grammar"; gid; sx] -> Hashtbl.replace grammars gid (grammar_of_sexp (Sexp.parse sx)); "SET"
           | "parse" :: args -> do_parse args
           | "spec" :: args -> do_spec args
           | "term" :: args -> do_term args
           | ["bsreg"; k; t; h; c] -> Hashtbl.replace bs_table k (unhex t, unhex h, (if c = "-" then None else Some (unhex c))); "SET"
           | ["bspfx"; p; l] -> Hashtbl.replace bs_prefix_lines (unhex p) (unhex l); "SET"
           | "bs" :: args -> do_bs args
           | "compile" :: args -> do_compile args
           | ["inlrel"; ga; gb] ->
             (* is gb the grammar ga with (some) includes replaced by the parenthesised body? (Subst.grel_b) *)
             let a = Hashtbl.find grammars ga and b = Hashtbl.find grammars gb in
             Printf.sprintf "INLREL\t%d\t%d" (if grel_b (S (S (grammar_size b))) a b then 1 else 0) (if fields_ok_std a then 1 else 0)
           | ["wf"; gid] ->
             let g = Hashtbl.find grammars gid in
             Printf.sprintf "WF\t%d\t%d\t%d" (if well_formed g then 1 else 0) (if well_formed_lr g then 1 else 0) (if well_formed_once_all g then 1 else 0)
           | other :: _ -> "UNKNOWN\t" ^ other
           | [] -> "EMPTY"
         with
         | Stack_overflow -> "STACKOVERFLOW"
         | Failure m -> "FAILURE\t" ^ m
         | Not_found -> "NOTFOUND"
       in
       print_endline resp
     done
   with End_of_file -> ())
