(* Extraction of the executable model for the correspondence runs.
   ExtrOcamlBasic only: bool, option, list, prod, unit, sumbool are mapped to
   OCaml's own; nat, positive, N stay Coq inductives. No Extract Constant. *)
From Coq Require Import Extraction ExtrOcamlBasic.
From PegV Require Import Utf8 Pretty.
Extraction Language OCaml.
Extraction "model.ml"
  Pretty.from_parse_error Pretty.pretty_spec Pretty.cfg_fixed Pretty.cfg_original
  Utf8.decode_str Utf8.encode_str.
