(* Extraction of the executable model for the correspondence runs.
   ExtrOcamlBasic only: bool, option, list, prod, unit, sumbool are mapped to
   OCaml's own; nat, positive, N stay Coq inductives. No Extract Constant. *)
From Coq Require Import Extraction ExtrOcamlBasic.
From PegV Require Import Utf8 State Terminals TerminalsSpec Syntax Fields Literals Model Spec Hooks Pretty BuildScript Compile WellFormed Subst LRTerm OnceWF Extracted.
Extraction Language OCaml.

Definition m_parse_std :=
  m_parse Hooks.ustate Extracted.scfg_run Extracted.tcfg_run Extracted.fcfg_run Extracted.rcfg_run Hooks.std_hooks.
Definition s_parse_std := s_parse Extracted.fcfg_run Hooks.std_shooks.
Definition bs_run := BuildScript.run.
Definition get_fields_std := get_fields Extracted.fcfg_run.
Definition pretty_exec := Pretty.from_parse_error Extracted.pretty_run.

Definition compile_std :=
  Compile.compile Extracted.fcfg_run (insens_guard Extracted.rcfg_run) Extracted.x_leftrec_needs_clone_run Extracted.x_pos_variants_checked_run
  Extracted.x_idents_checked_run Extracted.x_cycles_checked_run.
Definition idents_ok_std := Compile.idents_ok Extracted.x_idents_checked_run.
Definition derives_ok_std := Compile.derives_ok Extracted.x_idents_checked_run.

Definition fields_ok_std := Subst.fields_ok_b Extracted.fcfg_run.

Extraction "model.ml"
  WellFormed.well_formed LRTerm.well_formed_lr OnceWF.well_formed_once_all Subst.grel_b fields_ok_std Model.grammar_size
  compile_std idents_ok_std derives_ok_std Extracted.x_raw_kw_guard_run
  pretty_exec Pretty.pretty_spec
  Utf8.decode_str Utf8.encode_str
  m_parse_std s_parse_std Spec.furthest_latest get_fields_std Hooks.u_init Model.gf_fuel
  Terminals.parse_char Terminals.parse_Whitespace Terminals.parse_string_literal
  Terminals.parse_character_literal Terminals.parse_character_range
  Terminals.parse_string_literal_insensitive Terminals.parse_character_literal_insensitive
  Terminals.parse_end_of_input State.init_state
  bs_run
  Extracted.scfg_run Extracted.tcfg_run Extracted.fcfg_run Extracted.rcfg_run.
