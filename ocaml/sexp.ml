(* minimal s-expression reader *)
type t = Atom of string | List of t list

let parse (s : string) : t =
  let n = String.length s in
  let pos = ref 0 in
  let rec skip () = if !pos < n && (s.[!pos] = ' ' || s.[!pos] = '\n' || s.[!pos] = '\t') then (incr pos; skip ()) in
  let rec item () =
    skip ();
    if !pos >= n then failwith "sexp: eof"
    else if s.[!pos] = '(' then begin
      incr pos;
      let items = ref [] in
      let rec loop () =
        skip ();
        if !pos >= n then failwith "sexp: unclosed"
        else if s.[!pos] = ')' then incr pos
        else (items := item () :: !items; loop ())
      in
      loop ();
      List (List.rev !items)
    end else begin
      let st = !pos in
      while !pos < n && s.[!pos] <> ' ' && s.[!pos] <> '(' && s.[!pos] <> ')' && s.[!pos] <> '\n' do incr pos done;
      Atom (String.sub s st (!pos - st))
    end
  in
  item ()
