(* conversions between OCaml ints and the extracted Coq numerals *)
open Model

let rec pos_of_int (i : int) : positive =
  if i = 1 then XH
  else if i land 1 = 0 then XO (pos_of_int (i lsr 1))
  else XI (pos_of_int (i lsr 1))

let n_of_int (i : int) : n = if i = 0 then N0 else Npos (pos_of_int i)

let rec int_of_pos (p : positive) : int =
  match p with XH -> 1 | XO q -> 2 * int_of_pos q | XI q -> 2 * int_of_pos q + 1

let int_of_n (x : n) : int = match x with N0 -> 0 | Npos p -> int_of_pos p

let rec nat_of_int (i : int) : nat = if i <= 0 then O else S (nat_of_int (i - 1))

let int_of_nat (x : nat) : int =
  let rec go acc = function O -> acc | S y -> go (acc + 1) y in
  go 0 x

let unhex (s : Stdlib.String.t) : n list =
  let len = String.length s / 2 in
  List.init len (fun i -> n_of_int (int_of_string ("0x" ^ String.sub s (2 * i) 2)))

let hex (l : n list) : Stdlib.String.t =
  String.concat "" (List.map (fun b -> Printf.sprintf "%02x" (int_of_n b)) l)
