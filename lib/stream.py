"""The shared correspondence run: generated grammars x inputs, executed by the
real generated parsers (implementation), the extracted model M and the
extracted specification S.  Cached per (repo tree, verif tree, seed, tier)."""
import collections
import hashlib
import json
import os
import pickle
import shutil
import re
import sys
import time

from . import vp, genrun, canon

sys.path.insert(0, os.path.join(vp.VERIF, "tools"))
import gen  # noqa: E402

STREAM = os.path.join(vp.CACHE, "stream")


def parse_impl(line):
    p = line.split("\t")
    try:
        if p[0] == "OK":
            tree = canon.parse_debug(bytes.fromhex(p[1]).decode("utf-8")) if p[1] else None
            return {"k": "OK", "tree": tree, "trace": p[2] if len(p) > 2 else "", "hlog": p[3] if len(p) > 3 else ""}
        if p[0] == "ERR":
            return {"k": "ERR", "pos": int(p[1]), "spec": p[2], "trace": p[3] if len(p) > 3 else "",
                    "hlog": p[4] if len(p) > 4 else ""}
        if p[0] == "PANIC":
            return {"k": "PANIC", "msg": bytes.fromhex(p[1]).decode("utf-8", "replace") if len(p) > 1 else ""}
    except Exception as e:  # malformed Debug output etc.
        return {"k": "UNPARSED", "raw": line[:300], "why": repr(e)}
    return {"k": p[0]}


def parse_model(line):
    p = line.split("\t")
    if p[0] == "OK":
        return {"k": "OK", "tree": canon.model_value_str(p[1]), "trace": p[2], "hlog": p[3], "evals": p[4] if len(p) > 4 else ""}
    if p[0] == "ERR":
        return {"k": "ERR", "pos": int(p[1]), "spec": p[2], "trace": p[3], "hlog": p[4], "evals": p[5] if len(p) > 5 else ""}
    if p[0] == "PANIC":
        return {"k": "PANIC", "msg": p[1] if len(p) > 1 else ""}
    return {"k": p[0]}


def parse_spec(line):
    p = line.split("\t")
    if p[0] == "OK":
        return {"k": "OK", "tree": canon.model_value_str(p[1]), "end": int(p[2])}
    if p[0] == "ERR":
        return {"k": "ERR", "pos": int(p[1]) if p[1] != "-" else -1, "spec": p[2]}
    return {"k": p[0]}


def same_result(a, b):
    """implementation record vs model record: everything observable"""
    if a["k"] in ("TIMEOUT", "CRASH") and b["k"] == "FUEL":
        # both diverge: the real parser does not return (watchdog / stack overflow) and the model exhausts
        # every bound the harness gives it - a grammar outside the quantifier (e.g. a closure whose body can
        # succeed without consuming).  A parser that hangs where the model returns is still a disagreement.
        return True
    if a["k"] != b["k"]:
        return False
    if a["k"] == "OK":
        return a["tree"] == b["tree"] and a["trace"] == b["trace"] and a["hlog"] == b["hlog"]
    if a["k"] == "ERR":
        return (a["pos"], a["spec"], a["trace"], a["hlog"]) == (b["pos"], b["spec"], b["trace"], b["hlog"])
    return True


FAMILIES = {
    # name: (count quick, count thorough, inputs per rule, gen.Opts kwargs)
    "core": (120, 1200, 28, {}),
    "memo": (40, 400, 28, {"p_memo": 0.8, "p_leftrec": 0.0, "p_hooks": 0.7, "p_ctx": 0.0}),
    "leftrec": (30, 300, 24, {"p_leftrec": 1.0, "p_memo": 0.3}),
    "ws": (30, 300, 36, {"p_noskip": 0.5, "p_user_ws": 0.4, "p_include": 0.5}),
    "hooks": (30, 300, 24, {"p_hooks": 1.0, "p_ctx": 0.4}),
    "include": (40, 400, 28, {"p_include": 1.0, "p_noskip": 0.4, "p_frag_dir": 0.8}),
    "derives": (16, 160, 12, {"p_memo": 0.3, "p_leftrec": 0.2, "p_ctx": 0.0}),
}

DERIVE_SETS = [["Debug", "Clone", "PartialEq", "Eq"], ["Clone", "Debug"], ["Debug", "Clone", "PartialEq", "Eq", "Hash"], ["Debug"]]


def strip_memo(text):
    return re.sub(r"@memoize\s*", "", text)


def make_grammars(seed, tier):
    gs = []
    for fam, (nq, nt, ninp, kw) in FAMILIES.items():
        n = nq if tier == "quick" else nt
        fseed = (seed * 7919 + sum(ord(c) for c in fam)) & 0x7FFFFFFF
        for i in range(n):
            derives = None
            if fam == "derives":
                derives = DERIVE_SETS[i % len(DERIVE_SETS)]
                if "Clone" not in derives:
                    kw = dict(kw, p_memo=0.0, p_leftrec=0.0)
            gg = gen.make(fseed, i, gen.Opts(**kw))
            text = gg.text()
            gid = "g%s%d" % (fam[0], i)
            meta = {"family": fam, "ctx": gg.ctx, "memo": "@memoize" in text, "leftrec": "@leftrec" in text,
                    "user_ws": gg.user_ws, "hooks": ("@check" in text or "@extern" in text),
                    "include": (">F" in text), "ninp": ninp}
            g = genrun.G(gid, text, ctx=gg.ctx, derives=derives, meta=meta)
            g.gg = gg
            gs.append(g)
            if meta["memo"] and not meta["ctx"]:
                t = genrun.G(gid + "n", strip_memo(text), ctx=gg.ctx, meta=dict(meta, twin_of=gid, twin="nomemo", memo=False))
                t.gg = gg
                gs.append(t)
            if fam == "core" and i < (30 if tier == "quick" else 300) and not meta["ctx"]:
                # the same grammar printed with redundant parentheses (C12: layout must not change the meaning)
                t = genrun.G(gid + "p", gg.text(parens=True), ctx=gg.ctx, meta=dict(meta, twin_of=gid, twin="parens"))
                t.gg = gg
                gs.append(t)
            if meta["include"] and fam == "include":
                t = genrun.G(gid + "i", gg.text(inline=True), ctx=gg.ctx, meta=dict(meta, twin_of=gid, twin="inlined"))
                t.gg = gg
                gs.append(t)
    # committed regression corpus: fixed grammars with fixed inputs
    import glob
    for path in sorted(glob.glob(os.path.join(vp.VERIF, "corpus", "grammars", "*.ebnf"))):
        text = open(path, encoding="utf-8").read()
        nm = os.path.basename(path)[:-5]
        inp = open(path[:-5] + ".inputs", encoding="utf-8").read().split("\n")
        if inp and inp[-1] == "":
            inp.pop()
        meta = {"family": "corpus", "ctx": False, "memo": "@memoize" in text, "leftrec": "@leftrec" in text,
                "user_ws": False, "hooks": ("@check" in text or "@extern" in text), "include": False,
                "ninp": len(inp), "corpus": nm, "inputs": inp}
        g = genrun.G("gk_" + nm, text, meta=meta)
        g.gg = None
        gs.append(g)
        if meta["memo"] and not meta["leftrec"]:
            t = genrun.G("gk_" + nm + "n", strip_memo(text), meta=dict(meta, twin_of="gk_" + nm, twin="nomemo", memo=False))
            t.gg = None
            gs.append(t)
        ipath = path[:-5] + ".inlined"
        if os.path.exists(ipath):
            # the same grammar with every `>Rule` replaced by hand by the parenthesised body (C13)
            meta["include"] = True
            t = genrun.G("gk_" + nm + "i", open(ipath, encoding="utf-8").read(), meta=dict(meta, twin_of="gk_" + nm, twin="inlined"))
            t.gg = None
            gs.append(t)
    return gs


def derive_arg(g):
    d = ["Debug", "Clone"] if g.derives is None else g.derives
    return ",".join(x.encode().hex() for x in d) or "-"


def ctx_arg(g):
    return ",".join(x.encode().hex() for x in ["crate", "hooks", "Ctx"]) if g.ctx else "-"


class Case:
    __slots__ = ("g", "rule", "inp", "impl", "model", "spec")

    def __init__(self):
        self.impl = self.model = self.spec = None


def build(seed, tier, log=vp.log):
    t0 = time.time()
    binp = vp.cargo_build("direct")
    front = os.path.join(binp, "front")
    model = vp.model_build()
    gs = make_grammars(seed, tier)
    src = os.path.join(STREAM, "src-%s" % tier)
    genrun.prepare(front, gs, src)
    log("stream: %d grammars prepared in %.1fs" % (len(gs), time.time() - t0))
    # the compiler model's answer for every grammar the front end reads, and exact-type assertions from it
    from . import assertgen
    withsx = [g for g in gs if g.sexpr]
    creq = ["grammar\t%s\t%s" % (g.gid, g.sexpr) for g in withsx]
    creq += ["compile\t%s\t%s\t%s" % (g.gid, derive_arg(g), ctx_arg(g)) for g in withsx]
    creq += ["wf\t%s" % g.gid for g in withsx]
    cout_all = vp.pipe_lines(model, creq)
    cout = cout_all[len(withsx):2 * len(withsx)]
    for g, a in zip(withsx, cout_all[2 * len(withsx):]):
        f = a.split("\t")
        g.wf = (f[1] == "1") if f[0] == "WF" else None        # WellFormed.well_formed of the grammar
        g.wf_lr = (f[2] == "1") if f[0] == "WF" and len(f) > 2 else None   # LRTerm.well_formed_lr (with @leftrec rules)
        g.wf_once = (f[3] == "1") if f[0] == "WF" and len(f) > 3 else None  # OnceWF.well_formed_once_all (the packrat bound's certificate, any rule as start)
    for g, a in zip(withsx, cout):
        g.mcompile = a
        if a.startswith("OK\t") and g.gen == "CODE":
            try:
                g.assert_code = assertgen.assertions(a.split("\t")[1])
            except Exception as e:  # noqa
                g.assert_code = None
    exes = genrun.build(gs, "stream-%s" % tier)
    log("stream: shards built, %.1fs" % (time.time() - t0))
    # inputs: per (grammar family member) and exported rule; twins share their origin's inputs
    inputs = {}
    cases = []
    for g in gs:
        if g.gid not in exes:
            continue
        origin = g.meta.get("twin_of", g.gid)
        for r in g.exports:
            key = (origin, r)
            if key not in inputs:
                inputs[key] = g.meta["inputs"] if g.meta.get("corpus") else g.gg.inputs(r, g.meta["ninp"])
            for inp in inputs[key]:
                c = Case()
                c.g, c.rule, c.inp = g, r, inp
                cases.append(c)
    by_exe = collections.defaultdict(list)
    for k, c in enumerate(cases):
        by_exe[exes[c.g.gid]].append(k)
    for exe, ks in by_exe.items():
        lines = ["parse\t%s\t%s\t%s\trec" % (cases[k].g.gid, cases[k].rule.encode().hex(), cases[k].inp.encode().hex()) for k in ks]
        res = genrun.pipe_resilient(exe, lines)
        for k, r in zip(ks, res):
            cases[k].impl = parse_impl(r)
    # requests that were not run at all (the grammar hung on an earlier input and is not run again) are no cases
    skipped_cases = sum(1 for c in cases if c.impl["k"] == "SKIPPED")
    cases = [c for c in cases if c.impl["k"] != "SKIPPED"]
    log("stream: implementation ran %d cases (%d not run after a hang), %.1fs" % (len(cases), skipped_cases, time.time() - t0))
    # model and specification: grammars in parallel chunks, each under a time and memory limit; a grammar
    # that blows the limits (exponential backtracking of an unmemoized twin, say) is isolated and its cases dropped
    by_g = collections.defaultdict(list)
    for k, c in enumerate(cases):
        by_g[c.g.gid].append(k)
    gl = [g for g in gs if g.sexpr and g.gid in by_g]

    def run_chunk(chunk, timeout):
        head = ["grammar\t%s\t%s" % (g.gid, g.sexpr) for g in chunk]
        ks = [k for g in chunk for k in by_g[g.gid]]
        mreq = ["parse\t%s\t%s\t%s" % (cases[k].g.gid, cases[k].rule.encode().hex(), cases[k].inp.encode().hex()) for k in ks]
        sreq = ["spec\t%s\t%s\t%s" % (cases[k].g.gid, cases[k].rule.encode().hex(), cases[k].inp.encode().hex()) for k in ks]
        out = vp.pipe_lines(model, head + mreq + sreq, timeout=timeout, mem_gb=6)
        return ks, out[len(head):len(head) + len(ks)], out[len(head) + len(ks):]

    skipped = []

    def work(chunk):
        try:
            return [run_chunk(chunk, 600)]
        except Exception:
            res = []
            for g in chunk:
                try:
                    res.append(run_chunk([g], 90))
                except Exception:
                    skipped.append(g.gid)
            return res

    # grammars whose real parser hung or crashed on some input are likely to exhaust the model's bounds too: they
    # run alone, under the single-grammar limit, instead of holding up a whole chunk until the chunk limit
    suspect = {c.g.gid for c in cases if c.impl["k"] in ("TIMEOUT", "CRASH")}
    alone = [[g] for g in gl if g.gid in suspect]
    gl_n = [g for g in gl if g.gid not in suspect]

    def work_alone(chunk):
        try:
            return [run_chunk(chunk, 90)]
        except Exception:
            skipped.append(chunk[0].gid)
            return []

    nchunk = 16 if len(gl_n) >= 32 else max(1, len(gl_n) // 2)
    chunks = [gl_n[i::nchunk] for i in range(nchunk)]
    from concurrent.futures import ThreadPoolExecutor
    with ThreadPoolExecutor(nchunk + 2) as ex:
        futs = [ex.submit(work_alone, ch) for ch in alone] + [ex.submit(work, ch) for ch in chunks]
        for res in (f.result() for f in futs):
            for ks, mo, so in res:
                for k, a, b in zip(ks, mo, so):
                    cases[k].model = parse_model(a)
                    cases[k].spec = parse_spec(b)
    if skipped:
        log("stream: model exceeded its limits on %d grammars (cases dropped): %s" % (len(skipped), skipped[:8]))
    cases = [c for c in cases if c.g.gid not in skipped and getattr(c, "model", None) is not None]
    log("stream: model and spec ran, %.1fs" % (time.time() - t0))
    for g in gs:
        g.gg = None   # not picklable / not needed
    return {"grammars": gs, "cases": cases, "exes": exes, "wall": time.time() - t0, "skipped_grammars": skipped,
            "cases_not_run_after_a_hang": skipped_cases}


# what the stream is made from: the generators, the harness, the corpus and the library modules that build, run
# and parse it - not the per-property checks (lib/props) nor the manifest/design tools, which only read it
STREAM_INPUTS = ["tools/gen.py", "tools/gen_invalid.py", "tools/sexp2coq.py", "tools/extract_facts.py", "tools/templates",
                 "lib/stream.py", "lib/genrun.py", "lib/canon.py", "lib/vp.py", "lib/decls.py", "lib/assertgen.py",
                 "ocaml", "harness", "corpus"]


def get(ctx):
    os.makedirs(STREAM, exist_ok=True)
    # the model enters the key through its extracted source: adding theorems does not invalidate the stream
    key = hashlib.sha1(("%s|%s|%s|%s|%s" % (vp.repo_hash(), vp.verif_hash(STREAM_INPUTS), vp.model_hash(),
                                            ctx.seed, ctx.tier)).encode()).hexdigest()[:16]
    path = os.path.join(STREAM, "run-%s.pkl" % key)
    if os.path.exists(path) and os.path.isdir(os.path.join(STREAM, "bin-%s" % key)):
        with open(path, "rb") as f:
            return pickle.load(f)
    st = build(ctx.seed, ctx.tier)
    st["key"] = key
    # the binaries belong to this key: the build directory is reused by the next build (of another tree)
    bindir = os.path.join(STREAM, "bin-%s" % key)
    shutil.rmtree(bindir, ignore_errors=True)
    os.makedirs(bindir)
    moved = {}
    for gid, exe in st["exes"].items():
        if exe not in moved:
            moved[exe] = os.path.join(bindir, os.path.basename(exe))
            shutil.copy(exe, moved[exe])
        st["exes"][gid] = moved[exe]
    with open(path, "wb") as f:
        pickle.dump(st, f)
    # keep the cache small
    runs = sorted((os.path.getmtime(os.path.join(STREAM, x)), x) for x in os.listdir(STREAM) if x.startswith("run-"))
    for _, x in runs[:-4]:
        os.remove(os.path.join(STREAM, x))
        shutil.rmtree(os.path.join(STREAM, "bin-" + x[4:-4]), ignore_errors=True)
    return st


def distribution(cases):
    d = collections.Counter()
    for c in cases:
        d["impl_" + c.impl["k"]] += 1
        d["family_" + c.g.meta["family"]] += 1
        if any(ord(ch) > 127 for ch in c.inp):
            d["multibyte_input"] += 1
        if c.impl.get("trace") and "I:0" in c.impl["trace"]:
            d["cache_hit"] += 1
        if c.impl.get("trace") and "I:2" in c.impl["trace"]:
            d["leftrec_loop"] += 1
        if c.impl.get("hlog"):
            d["hook_called"] += 1
        d["len_%s" % ("0" if not c.inp else "1-4" if len(c.inp) < 5 else "5-16" if len(c.inp) < 17 else "17+")] += 1
    return dict(d)
