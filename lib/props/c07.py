"""C07 — @leftrec terminates and grows the longest left-nested match.
proof: Props/C07.v (termination for every grammar passing wf_check_lr; the loop's
defining equation; for the usual shape the recursive reference resolved -
C07_usual_body / _parse / _extension - provided nothing is skipped between the
entry of the rule and its recursive field; refutation otherwise).  correspondence: trees,
errors and the full trace (with the "Starting new left recursive loop" and
"Cache hit (left recursive)" notes) equal the model's.  oracle: for the usual
shapes  A = A op x | ... | b  an independent reference (match b, then greedily
op x) computed here on the input; every parse returns within the watchdog."""
import re

from .. import stream
from . import common

FACTS = common.CODEGEN_FILES


def ref_lr(inp, ops, name="LR", skipws=True, style="direct"):
    """independent reference for  NAME = left:*NAME op n:Num | ... | n:Num  (Num = ASCII digits; whitespace is
    skipped before every token unless the rule is @no_skip_ws): match Num, then greedily  op Num ; the tree is
    nested to the left.  Returns (tree, end) or None"""
    ws = " \t\n\x0c\r"

    def skip(i):
        while skipws and i < len(inp) and inp[i] in ws:
            i += 1
        return i

    def num(i):
        j = i
        while j < len(inp) and inp[j].isdigit() and inp[j].isascii():
            j += 1
        return (inp[i:j], j) if j > i else None
    i = skip(0)
    r = num(i)
    if not r:
        return None
    if style == "indirect":     # LX = @:LAd | @:Num;  LAd = left:*LX '+' right:Num
        tree = ("enum", "Num", ("str", r[0].encode()))
    else:
        tree = ("struct", name, [("left", ("none",)), ("n", ("str", r[0].encode()))])
    end = r[1]
    while True:
        j = skip(end)
        if j < len(inp) and inp[j] in ops:
            k = skip(j + 1)
            r = num(k)
            if not r:
                break
            if style == "indirect":
                tree = ("enum", "LAd", ("struct", "LAd", [("left", tree), ("right", ("str", r[0].encode()))]))
            else:
                tree = ("struct", name, [("left", ("some", tree)), ("n", ("str", r[0].encode()))])
            end = r[1]
        else:
            break
    return tree, end


# corpus/grammars/leftrec_usual_shape.ebnf: (operators, skips whitespace, style)
USUAL = {"LR": ("+", True, "direct"), "LRS": ("+-", True, "direct"), "LRN": ("+", False, "direct"), "LX": ("+", True, "indirect")}


def find_lr(tree):
    """first LR struct in a tree"""
    if isinstance(tree, tuple):
        if tree[0] == "struct" and tree[1] == "LR":
            return tree
        for x in tree[1:]:
            if isinstance(x, (tuple, list)):
                r = find_lr(x) if isinstance(x, tuple) else None
                if r:
                    return r
                if isinstance(x, list):
                    for y in x:
                        r = find_lr(y[1] if isinstance(y, tuple) and len(y) == 2 and isinstance(y[0], str) else y)
                        if r:
                            return r
    return None


def strip_pos(t):
    if isinstance(t, tuple) and t and t[0] == "struct":
        return ("struct", t[1], [(n, strip_pos(v)) for (n, v) in t[2] if n != "position"])
    if isinstance(t, tuple):
        return tuple(strip_pos(x) if isinstance(x, tuple) else ([strip_pos(y) for y in x] if isinstance(x, list) else x) for x in t)
    return t


def check(out, ctx):
    st = stream.get(ctx)
    cases = [c for c in st["cases"] if c.g.meta["leftrec"]]
    bad = common.correspondence(out, st, cases)
    ref_checked = 0
    outside = 0
    for c in cases:
        key = "%s:%s:%s" % (c.g.gid, c.rule, c.inp.encode().hex())
        if c.impl["k"] in ("TIMEOUT", "CRASH"):
            # a violation for the grammars of the quantifier: those whose computed certificate passes
            # LRTerm.wf_check_lr (theorem C07_terminates).  Other grammars (e.g. a closure over a @leftrec rule whose
            # base alternative can match nothing) loop by the documented non-termination of PEG closures.
            if getattr(c.g, "wf_lr", None) is True:
                out.violation("c07term:" + key, "the grammar passes the well-formedness check (left recursion through @leftrec rules only), the parse did not terminate / crashed on %r" % c.inp,
                              common.case_payload(c, st))
            else:
                outside += 1
            continue
        # the growth procedure of the property text is the model's grow loop (C07_grow): a different tree or
        # a different acceptance is a violation with this input as the replay
        if c.model["k"] in ("OK", "ERR") and c.impl["k"] in ("OK", "ERR"):
            if c.impl["k"] != c.model["k"] or (c.impl["k"] == "OK" and c.impl["tree"] != c.model["tree"]):
                out.violation("c07growth:" + key, "result of a @leftrec rule on %r is not the longest strict growth (the model's grow loop returns a different tree)" % c.inp,
                              common.case_payload(c, st))
        if c.impl.get("spec") == "sentinel":
            out.violation("c07sentinel:" + key, "LeftRecursionSentinel surfaced", common.case_payload(c, st))
        # reference for the plain shapes when the exported rule starts directly with the LR leaf... use
        # the dedicated corpus / family grammars whose root is `x:LR $`-like is rare; instead check every
        # LR node found in the tree for left-nesting (each extension holds the previous result in `left`)
        if c.impl["k"] == "OK":
            t = find_lr(c.impl["tree"])
            depth = 0
            while t is not None:
                ref_checked += 1 if depth == 0 else 0
                left = dict(t[2]).get("left")
                if left is None:
                    break
                if left[0] == "some":
                    inner = left[1]
                    while isinstance(inner, tuple) and inner[0] == "enum":
                        inner = inner[2]
                    t = inner if isinstance(inner, tuple) and inner[0] == "struct" else None
                    depth += 1
                elif left[0] == "none":
                    break
                else:
                    out.violation("c07shape:" + key, "left-recursive node is not nested to the left", common.case_payload(c, st))
                    break
    # directed reference check on the corpus grammar  S = a:A 'x' | a:A 'y'; @leftrec A = left:*A '+' n:N | n:N
    for c in st["cases"]:
        if c.g.meta.get("corpus") == "leftrec_sentinel" and c.impl["k"] == "OK":
            # A must have matched the longest  N ('+' N)*  prefix, left-nested
            t = dict(c.impl["tree"][2])["a"]
            n = 0
            cur = t
            while True:
                left = dict(cur[2])["left"]
                n += 1
                if left[0] == "none":
                    break
                cur = left[1]
            want = c.inp.rstrip("xy").count("+") + 1
            ref_checked += 1
            if n != want:
                out.violation("c07ref:%s" % c.inp, "left-recursive rule grew %d levels on %r, the longest match has %d" % (n, c.inp, want),
                              common.case_payload(c, st))
    # the closed form of the property text, independently of the model: corpus grammar leftrec_usual_shape has
    # four exported rules - three of the shape  A = left:*A op n:Num | ... | n:Num  and one in the style of the
    # documentation,  LX = @:LAd | @:Num; LAd = left:*LX '+' right:Num ; the parser must accept exactly
    # b x* (greedy) and nest to the left.  (Theorems C07_usual_body / C07_usual_parse: holds whenever nothing is
    # skipped between the entry of the rule and its recursive field; known finding c07:entered-before-whitespace
    # is the other case - a whitespace-skipping @leftrec rule entered where whitespace follows.)
    closed = 0
    closed_before_ws = 0
    for c in st["cases"]:
        if c.g.meta.get("corpus") != "leftrec_usual_shape" or c.rule not in USUAL or c.impl["k"] not in ("OK", "ERR"):
            continue
        ops, skipws, style = USUAL[c.rule]
        want = ref_lr(c.inp, ops, c.rule, skipws, style)
        closed += 1
        got = strip_pos(c.impl["tree"]) if c.impl["k"] == "OK" else None
        if (want is None) != (got is None) or (want is not None and got != want[0]):
            before_ws = skipws and c.inp[:1] != "" and c.inp[0] in " \t\n\x0c\r"
            closed_before_ws += before_ws
            out.violation("c07:entered-before-whitespace" if before_ws else "c07closed:%s:%s" % (c.rule, c.inp.encode().hex()),
                          "rule %s on %r: the result is not the greedy left-nested match  b x*  (%s)" % (
                              c.rule, c.inp, "rule entered where whitespace follows" if before_ws else "nothing skipped at the entry"),
                          common.case_payload(c, st, closed_form=repr(want)))
    common.stream_coverage(out, st, cases,
                           "cases of grammars with @leftrec rules (plain, two operators, base alternative first, indirect through a non-memoized rule, @position); non-trivial = the growth loop ran at least 3 turns; distinct by (grammar, rule, input)",
                           lambda c: c.impl.get("trace", "").count("I:2") >= 3,
                           {"left_nesting_checked": ref_checked, "closed_form_reference_compared": closed,
                            "closed_form_differs_entered_before_whitespace": closed_before_ws, "model_vs_implementation_disagreements": bad,
                            "leftrec_grammars_certified_by_wf_check_lr": sum(1 for g in st["grammars"] if g.meta["leftrec"] and getattr(g, "wf_lr", None) is True),
                            "leftrec_grammars": sum(1 for g in st["grammars"] if g.meta["leftrec"]),
                            "hanging_cases_of_grammars_outside_the_quantifier": outside,
                            "max_loop_turns_seen": max([c.impl.get("trace", "").count("I:2") for c in cases] or [0])})
