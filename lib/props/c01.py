"""C01 — generated parsers recognise exactly the PEG language.

proof: Props/C01.v (simulation M vs S, terminals, literals); correspondence:
implementation == extracted M on the whole stream (tree, error, full tracer
callback sequence, hook log); oracle: implementation vs extracted S —
accept/reject, and consumed bytes where a @position root exposes them."""
from .. import stream, termstream
from . import common

FACTS = common.CODEGEN_FILES


def root_end(tree):
    if tree and tree[0] == "struct":
        for (n, v) in tree[2]:
            if n == "position" and v[0] == "range":
                return v[2]
    return None


def check(out, ctx):
    tinfo = termstream.run(ctx, out, "C01")
    st = stream.get(ctx)
    cases = st["cases"]
    bad = common.correspondence(out, st, cases)
    checked = 0
    consumed_checked = 0
    for c in cases:
        if c.g.meta["ctx"] or c.spec["k"] in ("STUCK", "FUEL", "BADUTF8"):
            continue
        if c.impl["k"] not in ("OK", "ERR"):
            continue
        checked += 1
        if c.impl["k"] != c.spec["k"]:
            out.violation("c01:%s:%s:%s" % (c.g.gid, c.rule, c.inp.encode().hex()),
                          "parse of %r with rule %s: implementation says %s, the grammar read as a PEG says %s" %
                          (c.inp, c.rule, c.impl["k"], c.spec["k"]),
                          common.case_payload(c, st))
            continue
        if c.impl["k"] == "OK":
            e = root_end(c.impl["tree"])
            if e is not None:
                consumed_checked += 1
                if e != c.spec["end"]:
                    out.violation("c01end:%s:%s:%s" % (c.g.gid, c.rule, c.inp.encode().hex()),
                                  "rule %s on %r consumed %d bytes, PEG semantics determines %d" % (c.rule, c.inp, e, c.spec["end"]),
                                  common.case_payload(c, st))
    # termination: for grammars whose computed certificate passes WellFormed.wf_check (theorem C01_terminates)
    # the implementation must return on every input, and so must the model and the specification with the
    # bound the harness gives them
    wf_g = [g for g in st["grammars"] if getattr(g, "wf", None) is True or getattr(g, "wf_lr", None) is True]
    nwf_g = [g for g in st["grammars"] if getattr(g, "wf", None) is False and getattr(g, "wf_lr", None) is not True]
    wf_cases = 0
    wf_fuel = 0
    for c in cases:
        if getattr(c.g, "wf", None) is not True and getattr(c.g, "wf_lr", None) is not True:
            continue
        wf_cases += 1
        if c.impl["k"] in ("TIMEOUT", "CRASH"):
            out.violation("c01term:%s:%s:%s" % (c.g.gid, c.rule, c.inp.encode().hex()),
                          "the grammar passes the well-formedness check, the generated parser does not return on %r (%s)" % (c.inp, c.impl["k"]),
                          common.case_payload(c, st))
        elif (c.spec or {}).get("k") == "FUEL" or (c.model or {}).get("k") == "FUEL":
            wf_fuel += 1      # the bound the harness gives the model was too small (the theorem says a bound exists)
    common.stream_coverage(out, st, cases,
                           "generated grammars (families core/memo/leftrec/ws/hooks/include, plus memo-stripped and include-inlined twins) x inputs derived from the grammar (sentences, mutations, random); non-trivial = input non-empty and implementation result is OK or ERR; distinct by (grammar, rule, input)",
                           lambda c: len(c.inp) > 0 and c.impl["k"] in ("OK", "ERR"),
                           {"oracle_checked_against_spec": checked, "consumed_bytes_checked": consumed_checked,
                            "model_vs_implementation_disagreements": bad,
                            "grammars_certified_well_formed": len(wf_g), "grammars_not_certified": len(nwf_g),
                            "cases_of_certified_grammars_returned": wf_cases, "of_those_beyond_the_harness_bound_in_the_model": wf_fuel,
                            "not_certified_sample": [g.text[:200] for g in nwf_g[:3]], **tinfo})
