"""C02 — the tree holds exactly the matches on the successful path.
oracle: implementation tree == shape(S events) (the extracted S builds it)."""
from .. import stream
from . import common

FACTS = common.CODEGEN_FILES


def check(out, ctx):
    st = stream.get(ctx)
    cases = [c for c in st["cases"]]
    bad = common.correspondence(out, st, cases)
    checked = 0
    for c in cases:
        if c.g.meta["ctx"] or c.impl["k"] != "OK" or c.spec["k"] != "OK":
            continue
        checked += 1
        if c.impl["tree"] != c.spec["tree"]:
            out.violation("c02:%s:%s:%s" % (c.g.gid, c.rule, c.inp.encode().hex()),
                          "rule %s on %r: returned tree differs from the matches on the successful path" % (c.rule, c.inp),
                          common.case_payload(c, st))
    common.stream_coverage(out, st, cases,
                           "same stream as C01; non-trivial = successful parse whose tree has at least one field; distinct by (grammar, rule, input)",
                           lambda c: c.impl["k"] == "OK" and c.impl.get("tree") is not None and c.impl["tree"][0] == "struct" and len(c.impl["tree"][2]) > 0,
                           {"trees_checked_against_spec": checked, "model_vs_implementation_disagreements": bad})
