"""Helpers shared by the property checks that use the correspondence stream."""
from .. import vp, stream

CODEGEN_FILES = ["file_codegen_src_", "file_runtime_src_", "rec_le", "further_gt", "lit_fast", "range_fast",
                 "memo_closed", "leftrec_closed", "insens_guard", "ca_", "oa_", "clo_all", "seq_dup", "choice_"]


def reproduce(c, st):
    exe = st["exes"].get(c.g.gid, "<shard>")
    return "printf 'parse\\t%s\\t%s\\t%s\\trec\\n' | %s   # grammar text in the replay file" % (
        c.g.gid, c.rule.encode().hex(), c.inp.encode().hex(), exe)


def hanging(st):
    """grammars whose real parser did not return on some input (outside every quantifier: e.g. a closure
    over a body that can succeed without consuming); the re-run oracles leave them alone"""
    return set(c.g.gid for c in st["cases"] if c.impl["k"] in ("TIMEOUT", "CRASH"))


def case_payload(c, st, **extra):
    p = {"grammar": c.g.text, "user_context": c.g.ctx, "rule": c.rule, "input": c.inp,
         "input_hex": c.inp.encode().hex(), "implementation": c.impl, "model": c.model, "spec": c.spec,
         "reproduce": reproduce(c, st)}
    p.update(extra)
    return p


def correspondence(out, st, cases, what="generated parser vs Model.m_parse"):
    """implementation == model on everything observable; a disagreement means
    the proofs no longer speak about this code"""
    bad = 0
    for c in cases:
        if not stream.same_result(c.impl, c.model):
            bad += 1
            if bad <= 3:
                out.broke("correspondence", what,
                          {"grammar": c.g.text, "rule": c.rule, "input": c.inp, "implementation": c.impl, "model": c.model})
    return bad


def samples(cases, n=4):
    out = []
    step = max(1, len(cases) // n)
    for c in cases[::step][:n]:
        out.append({"grammar": c.g.text.split("\n")[0][:160], "rule": c.rule, "input": c.inp,
                    "implementation": _short(c.impl), "spec": _short(c.spec)})
    return out


def _short(r):
    d = dict(r)
    for k in ("trace", "hlog", "evals"):
        if k in d and len(str(d[k])) > 120:
            d[k] = str(d[k])[:120] + "..."
    if "tree" in d:
        d["tree"] = repr(d["tree"])[:200]
    return d


def stream_coverage(out, st, cases, rule, nontrivial, extra=None):
    distinct = set()
    for c in cases:
        if nontrivial(c):
            distinct.add((c.g.gid, c.rule, c.inp))
    cov = {
        "evaluations": len(cases),
        "distinct_nontrivial": len(distinct),
        "rule": rule,
        "samples": samples(cases),
        "input_distribution": stream.distribution(cases),
        "grammars": len({c.g.gid for c in cases}),
        "stream_wall_s": round(st.get("wall", 0), 1),
        "grammars_dropped_model_limits": len(st.get("skipped_grammars", [])),
        "cases_not_run_after_a_hang": st.get("cases_not_run_after_a_hang", 0),
        "grammars_whose_parser_hangs": len(hanging(st)),
    }
    if extra:
        cov.update(extra)
    out.coverage.update(cov)


def plain(c):
    """inside the quantifier of the M-vs-S theorems: pure hooks, no memo/leftrec"""
    m = c.g.meta
    return not m["ctx"] and not m["memo"] and not m["leftrec"]


# what each property's theorems assume (hypotheses of the statements) and what its check trusts
ASSUME = {
 "C01": ["theorems: grammars without @memoize/@leftrec (C01_conform) or with @memoize only (C01_memoized); hooks are pure oracles; input is valid UTF-8 (a Rust &str)",
         "oracle: generated grammars and inputs only; grammars whose model run exceeds the time/memory limits are dropped and counted"],
 "C02": ["as C01; Debug output of the generated types is parsed back by lib/canon.py"],
 "C03": ["recursive type cycles broken by * or Vec; names do not collide with prelude/peginator items or the generator's locals (state, global, iterations, __result)",
         "rustc 1.95 accepts = compiles"],
 "C04": ["input is valid UTF-8; extern functions return a byte length on a character boundary within the remaining input; stack depth is not modelled"],
 "C05": ["C05_transparent: no @leftrec rule in the grammar; hook results do not depend on the user state; statement is about results whenever both parsers return"],
 "C06": ["C06_entry_after_return needs the wrapper closed around early exits (fact memo_closed); re-entrance through @leftrec is a known finding"],
 "C07": ["C07_bound: body evaluations return and their end offsets are bounded by the input length; strict progress test (fact further_gt)"],
 "C08": ["as C01 for the theorem part; the skip-point oracle uses the implementation's own tracer callbacks"],
 "C09": ["as C01; values produced by extern functions carry no positions"],
 "C10": ["C10_furthest: plain grammars, pure hooks; C10_real: none (every grammar, stateful hooks)"],
 "C11": ["std's char_indices = offsets of non-continuation bytes; colours off"],
 "C12": ["the syntax reference is formalised by grammar.ebnf itself plus the generator's printer"],
 "C13": ["includes of normal rules; the inlined twin is produced by the generator's printer"],
 "C14": ["hook functions are deterministic; the recording hook library of harness/gen/hooks.rs mirrors Hooks.v"],
 "C15": ["C15_terminates: a rank decreasing along every include exists; the four known-finding classes are excluded by model predicates"],
 "C16": ["ambient inputs are found by a source scan (scan_ambient), not proved absent"],
 "C17": ["the re-bootstrap is an execution of the tree's own generator and rustc"],
 "C18": ["file system = map from paths to contents; CRC-32 is an abstract function with collisions; rustfmt not modelled"],
 "C19": ["C19_tracer_independent / C19_balanced: none (every grammar, stateful hooks); a concrete tracer's state is a function of the callbacks it receives"],
 "C20": ["no process-wide mutable state in the modelled crates (scan_shared_state); thread schedules of the real runtime are observed, not enumerated"],
}
