"""Helpers shared by the property checks that use the correspondence stream."""
from .. import vp, stream

CODEGEN_FILES = ["file_codegen_src_", "file_runtime_src_", "rec_le", "further_gt", "lit_fast", "range_fast",
                 "memo_closed", "leftrec_closed", "insens_guard", "ca_", "oa_", "clo_all", "seq_dup", "choice_"]


def reproduce(c, st):
    exe = st["exes"].get(c.g.gid, "<shard>")
    return "printf 'parse\\t%s\\t%s\\t%s\\trec\\n' | %s   # grammar text in the replay file" % (
        c.g.gid, c.rule.encode().hex(), c.inp.encode().hex(), exe)


def case_payload(c, st, **extra):
    p = {"grammar": c.g.text, "user_context": c.g.ctx, "rule": c.rule, "input": c.inp,
         "input_hex": c.inp.encode().hex(), "implementation": c.impl, "model": c.model, "spec": c.spec,
         "reproduce": reproduce(c, st)}
    p.update(extra)
    return p


def correspondence(out, st, cases, what="generated parser vs Model.m_parse"):
    """implementation == model on everything observable; a disagreement means
    the proofs no longer speak about this code"""
    bad = 0
    for c in cases:
        if not stream.same_result(c.impl, c.model):
            bad += 1
            if bad <= 3:
                out.broke("correspondence", what,
                          {"grammar": c.g.text, "rule": c.rule, "input": c.inp, "implementation": c.impl, "model": c.model})
    return bad


def samples(cases, n=4):
    out = []
    step = max(1, len(cases) // n)
    for c in cases[::step][:n]:
        out.append({"grammar": c.g.text.split("\n")[0][:160], "rule": c.rule, "input": c.inp,
                    "implementation": _short(c.impl), "spec": _short(c.spec)})
    return out


def _short(r):
    d = dict(r)
    for k in ("trace", "hlog", "evals"):
        if k in d and len(str(d[k])) > 120:
            d[k] = str(d[k])[:120] + "..."
    if "tree" in d:
        d["tree"] = repr(d["tree"])[:200]
    return d


def stream_coverage(out, st, cases, rule, nontrivial, extra=None):
    distinct = set()
    for c in cases:
        if nontrivial(c):
            distinct.add((c.g.gid, c.rule, c.inp))
    cov = {
        "evaluations": len(cases),
        "distinct_nontrivial": len(distinct),
        "rule": rule,
        "samples": samples(cases),
        "input_distribution": stream.distribution(cases),
        "grammars": len({c.g.gid for c in cases}),
        "stream_wall_s": round(st.get("wall", 0), 1),
    }
    if extra:
        cov.update(extra)
    out.coverage.update(cov)


def plain(c):
    """inside the quantifier of the M-vs-S theorems: pure hooks, no memo/leftrec"""
    m = c.g.meta
    return not m["ctx"] and not m["memo"] and not m["leftrec"]
