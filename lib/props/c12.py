"""C12 — grammar text is read into the structure it denotes.
proof: Props/C12.v (escape decoding for every scalar value and form; directive
collection; the front end as an instance of the simulation on the
regenerated AST of grammar.ebnf).  correspondence: the shipped front end
(Grammar::from_str) vs the extracted model M running on the AST of
grammar.ebnf, on many grammar texts.  oracles: (a) the front end's AST ==
the AST the text was printed from (generator's AST), modulo redundant groups
and escape spelling; (b) layout invariance: one AST printed under several
layouts (whitespace, comments, quote style, escape forms, redundant
parentheses) reads to the same structure; (c) == extracted S under
grammar.ebnf."""
import os
import random
import subprocess
import sys

from .. import vp, canon, stream
from . import common

sys.path.insert(0, os.path.join(vp.VERIF, "tools"))
import gen  # noqa: E402

# the behavioural clause (equal grammars spelled differently generate parsers that behave the same) runs through
# every template: all modelled files
FACTS = ["file_codegen_src_string_rs", "file_codegen_src_rule_rs", "file_codegen_src_grammar_mod_rs", "file_runtime_src_", "grammar_ebnf"] + common.CODEGEN_FILES


def nm(s):
    return "n:" + s.encode().hex()


def hexval(c):
    return int(chr(int(c)), 16)


def canon_item(x):
    h = x[0]
    if h == "char":
        return ["char", x[1]]
    if h == "simple":
        return ["char", str({"backslash": 92, "cr": 13, "dquote": 34, "nl": 10, "quote": 39, "tab": 9}[x[1]])]
    if h == "hexa":
        return ["char", str(hexval(x[1]) * 16 + hexval(x[2]))]
    if h == "utf8":
        v = 0
        for d in x[1:]:
            if d != "-":
                v = v * 16 + hexval(d)
        return ["char", str(v)]
    return x


def canon_sx(x):
    """dump s-expression -> canonical: escapes decoded, redundant groups removed"""
    if isinstance(x, str):
        return x
    h = x[0] if x else None
    if h in ("char", "simple", "hexa", "utf8"):
        return canon_item(x)
    y = [canon_sx(a) for a in x]
    if h == "group" and isinstance(y[1], list) and y[1][0] == "choice" and len(y[1]) == 2 \
            and y[1][1][0] == "seq" and len(y[1][1]) == 2:
        return y[1][1][1]
    return y


def gen_expr(e):
    k = e[0]
    if k == "choice":
        return ["choice"] + [gen_expr(s) for s in e[1]]
    if k == "seq":
        return ["seq"] + [gen_expr(p) for p in e[1]]
    if k == "group":
        return canon_sx(["group", gen_expr(e[1])])
    if k == "opt":
        return ["opt", gen_expr(e[1])]
    if k == "clo":
        return ["closure", gen_expr(e[1]), "1" if e[2] else "0"]
    if k in ("neg", "pos"):
        return [k, gen_expr(e[1])]
    if k == "range":
        return ["range", ["char", str(ord(e[1]))], ["char", str(ord(e[2]))]]
    if k == "lit":
        return ["lit", "1" if e[2] else "0"] + [["char", str(ord(c))] for c in e[1]]
    if k == "eoi":
        return ["eoi"]
    if k == "inc":
        return ["include", nm(e[1])]
    if k == "field":
        _, fn, boxed, typ = e
        f = "none" if fn is None else "override" if fn == "@" else ["named", nm(fn)]
        return ["field", f, "1" if boxed else "0", nm(typ)]
    raise ValueError(k)


def gen_rule(r):
    if r.kind == "extern":
        path, ret = r.extern
        return ["extern", [nm(p) for p in path.split("::")], [nm(p) for p in ret.split("::")] if ret else "noret", nm(r.name)]
    if r.kind == "char":
        parts = []
        for p in r.parts:
            if p[0] == "c":
                parts.append(["cchar", ["char", str(ord(p[1]))]])
            elif p[0] == "r":
                parts.append(["crange", ["char", str(ord(p[1]))], ["char", str(ord(p[2]))]])
            else:
                parts.append(["cident", nm(p[1])])
        return ["charrule", ["checks"] + [[nm(x) for x in c.split("::")] for c in r.checks], nm(r.name), ["parts"] + parts]
    dirs = []
    for d in r.dirs:
        if d.startswith("@check("):
            dirs.append(["check", [nm(x) for x in d[7:-1].split("::")]])
        else:
            dirs.append(d[1:])
    return ["rule", ["dirs"] + dirs, nm(r.name), gen_expr(r.body)]


def run_front(front, path, cmd):
    return subprocess.run([front, cmd, path], stdout=subprocess.PIPE, text=True, timeout=60).stdout.rstrip("\n")


DENOTE_POOL = ["\r\n", "a\r\nb", "\n\r", "\r", "\n\n", "\t\\", "\\n", "'\"", "\"'", "a'b", "é\r\nü", "\x00\x01", "\x7f\x80\xff", "→\n",
               "😀\r", "x", "\r\n\r\n", " \t ", "ab", "\\\\", "\u2028\u2029", "\ud7ff\ue000", "\U0010ffff"]


def rust_unescape(tok):
    """a Rust string/char literal token as proc_macro2 prints it -> the string"""
    body = tok[1:-1]
    out, i = [], 0
    while i < len(body):
        ch = body[i]
        if ch != "\\":
            out.append(ch)
            i += 1
            continue
        n = body[i + 1]
        if n in "nrt0\\'\"":
            out.append({"n": "\n", "r": "\r", "t": "\t", "0": "\0", "\\": "\\", "'": "'", '"': '"'}[n])
            i += 2
        elif n == "x":
            out.append(chr(int(body[i + 2:i + 4], 16)))
            i += 4
        elif n == "u":
            j = body.index("}", i)
            out.append(chr(int(body[i + 3:j], 16)))
            i = j + 1
        else:
            raise ValueError("escape \\%s in %r" % (n, tok))
    return "".join(out)


def denoted(out, ctx, front, rnd, work):
    """(d) the characters a literal / range denotes are the characters the generated parser is given"""
    import re
    n = 60 if ctx.tier == "quick" else 600
    checked = 0
    todo = []
    for i in range(n):
        k = rnd.randint(2, 5)
        items = []
        for _ in range(k):
            r = rnd.random()
            if r < 0.7:
                s = rnd.choice(DENOTE_POOL) if rnd.random() < 0.6 else "".join(rnd.choice("ab\r\n\t'\"\\é→😀\x00 ") for _ in range(rnd.randint(1, 5)))
                ins = rnd.random() < 0.2 and all(ord(c) < 128 for c in s)
                items.append(("lit", s, ins))
            else:
                a = rnd.choice(["a", "\r", "\n", "\x00", "é", "'", "\\"])
                b = chr(min(0x10FFFF, ord(a) + rnd.randint(0, 40)))
                if 0xD800 <= ord(b) <= 0xDFFF:
                    b = "\ue000"
                items.append(("range", a, b))
        pr = gen.Printer(random.Random(rnd.random()), fancy=True)
        text = "@export @no_skip_ws R = " + " ".join(pr.expr(it) for it in items) + " 'end' 'end';\n"
        todo.append((i, items, text))
    # the ends of the encoding ranges and of the surrogate gap, in every escape form that can spell them
    for b in (0x01, 0x7F, 0x80, 0xFF, 0x100, 0x7FF, 0x800, 0xD7FF, 0xE000, 0xFFFD, 0xFFFF, 0x10000, 0x10FFFF):
        forms = ["\\U00%06X" % b, "\\u{%x}" % b, "\\u{%06X}" % b]
        if b < 0x100:
            forms += ["\\x%02x" % b, "\\x%02X" % b]
        if b < 0x10000:
            forms += ["\\u%04x" % b, "\\u%04X" % b]
        if b > 0x20:
            forms.append(chr(b))
        for fi, f in enumerate(forms):
            items = [("lit", chr(b), False), ("lit", chr(b) + "x", False), ("range", chr(b), chr(b)), ("range", "\x00", chr(b))]
            text = "@export @no_skip_ws R = '%s' \"%sx\" '%s'..'%s' '\\x00'..'%s' 'end' 'end';\n" % (f, f, f, f, f)
            todo.append(("b%x_%d" % (b, fi), items, text))
    for (i, items, text) in todo:
        path = os.path.join(work, "den%s.ebnf" % i)
        open(path, "w", encoding="utf-8", newline="").write(text)
        o = subprocess.run([front, "gen", path], stdout=subprocess.PIPE, stderr=subprocess.PIPE, text=True, timeout=60)
        if not o.stdout.startswith("CODE\n"):
            out.violation("c12denote-reject:%s" % i, "a grammar of literals and ranges that follows the syntax reference was rejected: " + (o.stdout + o.stderr)[:160],
                          {"text": text})
            continue
        STR = r'"(?:[^"\\]|\\.)*"'
        CHR = r"'(?:[^'\\]|\\.)*'"
        calls = re.findall(r"(parse_string_literal_insensitive|parse_character_literal_insensitive|parse_string_literal|parse_character_literal|parse_character_range) "
                           r"\(state(?: \. clone \(\))? , (" + STR + "|" + CHR + r")(?: , (" + CHR + r"))?\)", o.stdout)
        got = []
        for fn, a1, a2 in calls:
            got.append((fn, tuple(rust_unescape(t) for t in (a1, a2) if t)))
        want = []
        for it in items:
            if it[0] == "lit":
                s = it[1].lower() if it[2] else it[1]
                one = len(s) == 1
                fn = ("parse_character_literal" if one else "parse_string_literal") + ("_insensitive" if it[2] else "")
                want.append((fn, (s,)))
            else:
                want.append(("parse_character_range", (it[1], it[2])))
        want += [("parse_string_literal", ("end",))] * 2
        checked += len(want)
        if got != want:
            bad = [(g, w) for g, w in zip(got, want) if g != w][:2]
            out.violation("c12denote:%s" % i, "a literal/range does not denote the documented characters in the generated parser: got %r, documented %r" % (bad[0] if bad else (got, want)),
                          {"text": text, "generated_calls": repr(got), "documented": repr(want)})
    return checked


def directive_orders(out, ctx, front, rnd, work):
    """(e) directives in any order: the same rules with their directives permuted (the relative order of the
    @check directives kept, it is their calling order) must give byte-identical generated code"""
    n = 30 if ctx.tier == "quick" else 300
    compared = 0
    for i in range(n):
        gg = gen.make(ctx.seed * 17 + 12, i, gen.Opts(p_hooks=0.9, p_ctx=0.0, p_memo=0.4, p_position=0.5, p_noskip=0.5))
        base = gg.text()
        codes = []
        texts = [base]
        saved = [list(r.dirs) for r in gg.rules]
        for k in range(3):
            for r, d0 in zip(gg.rules, saved):
                checks = [d for d in d0 if d.startswith("@check")]
                others = [d for d in d0 if not d.startswith("@check")]
                rr = random.Random(rnd.random())
                rr.shuffle(others)
                # interleave: positions of the checks chosen at random, their order kept
                slots = sorted(rr.sample(range(len(d0)), len(checks))) if checks else []
                merged, ci, oi = [], 0, 0
                for pos in range(len(d0)):
                    if ci < len(checks) and pos == slots[ci]:
                        merged.append(checks[ci]); ci += 1
                    else:
                        merged.append(others[oi]); oi += 1
                r.dirs = merged
            texts.append(gg.text())
        for r, d0 in zip(gg.rules, saved):
            r.dirs = d0
        for k, t in enumerate(texts):
            path = os.path.join(work, "dir%d_%d.ebnf" % (i, k))
            open(path, "w", encoding="utf-8").write(t)
            o = subprocess.run([front, "gen", path], stdout=subprocess.PIPE, stderr=subprocess.PIPE, text=True, timeout=60).stdout
            codes.append(o)
        compared += len(texts) - 1
        for k in range(1, len(texts)):
            if codes[k] != codes[0]:
                out.violation("c12dirs:%d" % i, "the same rules with their directives written in another order compile to different code",
                              {"text": texts[0], "reordered": texts[k],
                               "first_difference": next((j for j, (a, b) in enumerate(zip(codes[0], codes[k])) if a != b), -1),
                               "replay": "vp-front gen <file> on both texts"})
                break
    return compared


def check(out, ctx):
    front = os.path.join(ctx.bin, "front")
    rnd = random.Random(ctx.seed * 977 + 12)
    n = 25 if ctx.tier == "quick" else 300
    work = os.path.join(vp.CACHE, "c12-%s" % ctx.tier)
    os.makedirs(work, exist_ok=True)
    texts = []   # (label, text, intended canonical AST or None, group id)
    for i in range(n):
        gg = gen.make(ctx.seed * 13 + 5, i, gen.Opts(p_hooks=0.5, p_include=0.5))
        intended = ["grammar"] + [gen_rule(r) for r in gg.rules]
        texts.append(("g%d.plain" % i, gg.text(), intended, i))
        for k in range(2):
            texts.append(("g%d.fancy%d" % (i, k), gg.text(rnd=random.Random(rnd.random()), fancy=True), intended, i))
    # the repository's own grammars
    import glob
    for p in sorted(glob.glob(os.path.join(vp.REPO, "test/src/*/grammar.ebnf"))) + [os.path.join(vp.REPO, "grammar.ebnf")]:
        texts.append((os.path.relpath(p, vp.REPO), open(p, encoding="utf-8").read(), None, None))
    gebnf = run_front(front, os.path.join(vp.REPO, "grammar.ebnf"), "dump")
    reqs = ["grammar\tgebnf\t" + gebnf]
    impl, dumps = [], []
    for (label, text, intended, gid) in texts:
        p = os.path.join(work, label.replace("/", "_") + ".ebnf")
        open(p, "w", encoding="utf-8").write(text)
        o = run_front(front, p, "debug")
        impl.append(o)
        dumps.append(run_front(front, p, "dump"))
        reqs.append("parse\tgebnf\t%s\t%s" % ("Grammar".encode().hex(), text.encode().hex()))
    for (label, text, intended, gid) in texts:
        reqs.append("spec\tgebnf\t%s\t%s" % ("Grammar".encode().hex(), text.encode().hex()))
    res = vp.pipe_lines(ctx.model, reqs, timeout=3000)
    mres, sres = res[1:1 + len(texts)], res[1 + len(texts):]
    disagree = 0
    by_group = {}
    nontrivial = set()
    samples = []
    for k, (label, text, intended, gid) in enumerate(texts):
        a = impl[k]
        if a.startswith("OK\t"):
            try:
                ta = ("OK", canon.parse_debug(a[3:]))
            except Exception as e:
                ta = ("UNPARSED", repr(e))
        else:
            parts = a.split("\t")
            ta = ("ERR", parts[1] if len(parts) > 1 else "?")
        m = mres[k].split("\t")
        tm = ("OK", canon.model_value_str(m[1])) if m[0] == "OK" else ("ERR", m[1]) if m[0] == "ERR" else (m[0],)
        s = sres[k].split("\t")
        ts = ("OK", canon.model_value_str(s[1])) if s[0] == "OK" else ("ERR", s[1]) if s[0] == "ERR" else (s[0],)
        if ta != tm:
            disagree += 1
            if disagree <= 3:
                out.broke("correspondence", "Grammar::from_str vs model of the parser generated from grammar.ebnf",
                          {"text": text, "implementation": repr(ta)[:600], "model": repr(tm)[:600]})
        if ta != ts and ts[0] in ("OK", "ERR"):
            out.violation("c12spec:" + label, "front end reads %s differently from grammar.ebnf's PEG semantics" % label,
                          {"text": text, "implementation": repr(ta)[:1500], "spec": repr(ts)[:1500]})
        if intended is not None:
            if not dumps[k].startswith("(grammar"):
                out.violation("c12reject:" + label, "a text that follows the syntax reference was rejected: %s" % dumps[k][:100],
                              {"text": text, "front_end": dumps[k]})
            else:
                got = canon_sx(canon.parse_sexp(dumps[k]))
                if got != intended:
                    out.violation("c12ast:" + label, "grammar text %s was read into a different structure than the one it was printed from" % label,
                                  {"text": text, "read": repr(got)[:2000], "intended": repr(intended)[:2000]})
                by_group.setdefault(gid, []).append((label, got))
            if "fancy" in label:
                nontrivial.add(text)
        if k % 37 == 3 and len(samples) < 4:
            samples.append({"label": label, "text": text[:400], "front_end": a[:200]})
    for gid, lst in by_group.items():
        first = lst[0][1]
        for (label, got) in lst[1:]:
            if got != first:
                out.violation("c12layout:" + label, "the same grammar under another layout reads differently (%s vs %s)" % (lst[0][0], label), {})
    # (f) behaviour: a grammar and the same grammar printed with redundant parentheses (around the operand of
    # every prefix operator, around half of the parts of every sequence) generate parsers that agree on every
    # input in acceptance, tree, positions and error position
    st = stream.get(ctx)
    by = {(c.g.gid, c.rule, c.inp): c for c in st["cases"]}
    gmap = {g.gid: g for g in st["grammars"]}
    paren_pairs = 0
    for (gid, rule, inp), c in by.items():
        g = gmap[gid]
        if g.meta.get("twin") != "parens":
            continue
        oc = by.get((g.meta["twin_of"], rule, inp))
        if oc is None:
            continue
        paren_pairs += 1
        a, b = oc.impl, c.impl
        same = a["k"] == b["k"] and (a["k"] != "OK" or a["tree"] == b["tree"]) and \
            (a["k"] != "ERR" or (a["pos"], a["spec"]) == (b["pos"], b["spec"]))
        if not same:
            out.violation("c12parens:%s:%s:%s" % (oc.g.gid, rule, inp.encode().hex()),
                          "a grammar and the same grammar with redundant parentheses disagree on %r" % inp,
                          common.case_payload(oc, st, parenthesised_grammar=c.g.text, parenthesised_result=b))
    for g in st["grammars"]:
        if g.meta.get("twin") == "parens":
            o = gmap[g.meta["twin_of"]]
            if (o.gen == "CODE") != (g.gen == "CODE") or (o.rustc_error is None) != (g.rustc_error is None):
                out.violation("c12parens-compile:" + o.gid, "only one of (grammar, grammar with redundant parentheses) is accepted / compiles",
                              {"grammar": o.text, "parenthesised": g.text, "gen": [o.gen, g.gen], "rustc": [o.rustc_error, g.rustc_error]})
    den = denoted(out, ctx, front, rnd, work)
    dirs = directive_orders(out, ctx, front, rnd, work)
    out.coverage.update({
        "directive_order_variants_compared": dirs, "parenthesised_twin_cases_compared": paren_pairs,
        "literals_and_ranges_checked_in_generated_code": den,
        "evaluations": len(texts), "distinct_nontrivial": len(nontrivial),
        "rule": "generated grammars (all operators, directives in random order, @char/@extern rules, both quote styles, every escape form chosen at random per character) each printed plainly and under 2 random layouts (spaces/newlines/tabs/comments between tokens, redundant parentheses), plus the repository's own grammar files; non-trivial = a fancy-layout text; distinct by text",
        "samples": samples, "model_vs_implementation_disagreements": disagree,
        "layout_groups": len(by_group),
    })
