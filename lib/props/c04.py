"""C04 — no panic, no split UTF-8 sequence.
proof: Props/C04.v (generic invariant theorem instantiated with UTF-8
anchoring, all grammars incl. memo/leftrec).  correspondence + oracle: every
stream case runs the real generated parser with the cfg(peginator_verif)
assertion in ParseState::advance; no PANIC / crash / timeout may occur, every
error position is a char boundary inside the input; the runtime matchers are
driven exhaustively over a small scope with multi-byte collisions."""
from .. import stream, termstream
from . import common

FACTS = common.CODEGEN_FILES


def check(out, ctx):
    tinfo = termstream.run(ctx, out, "C04")
    st = stream.get(ctx)
    cases = st["cases"]
    bad = common.correspondence(out, st, cases)
    outside = 0
    for c in cases:
        key = "%s:%s:%s" % (c.g.gid, c.rule, c.inp.encode().hex())
        if c.impl["k"] in ("TIMEOUT", "CRASH") and (c.model or {}).get("k") == "FUEL" and \
                getattr(c.g, "wf", None) is not True and getattr(c.g, "wf_lr", None) is not True:
            # a grammar outside the quantifier (not certified well-formed) on which the model does not return
            # either: the documented non-termination of a closure over a body that can match nothing, or of
            # unmarked left recursion (stack exhaustion); neither a panic nor an access outside the input
            outside += 1
        elif c.impl["k"] not in ("OK", "ERR"):
            out.violation("c04panic:" + key, "parser did not return Ok/Err on %r: %s" % (c.inp, c.impl), common.case_payload(c, st))
        elif c.impl["k"] == "ERR":
            b = c.inp.encode("utf-8")
            p = c.impl["pos"]
            if p > len(b) or (p < len(b) and (b[p] & 0xC0) == 0x80):
                out.violation("c04pos:" + key, "error position %d splits a UTF-8 sequence of %r" % (p, c.inp), common.case_payload(c, st))
    common.stream_coverage(out, st, cases,
                           "whole stream, hook on; non-trivial = input contains a multi-byte character; distinct by (grammar, rule, input)",
                           lambda c: any(ord(ch) > 127 for ch in c.inp),
                           {"model_vs_implementation_disagreements": bad,
                            "cases_of_uncertified_grammars_where_parser_and_model_both_do_not_return": outside, **tinfo})
