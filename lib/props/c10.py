"""C10 — a failed parse reports a real failure offset, the furthest one without memo.
oracle: position within the input and on a char boundary; for grammars without
memo/leftrec: (position, specifics) == furthest-latest failed attempt of S;
never the left-recursion sentinel."""
from .. import stream
from . import common

FACTS = common.CODEGEN_FILES


def check(out, ctx):
    st = stream.get(ctx)
    cases = [c for c in st["cases"] if c.impl["k"] == "ERR"]
    bad = common.correspondence(out, st, cases)
    furthest = 0
    for c in cases:
        b = c.inp.encode("utf-8")
        p = c.impl["pos"]
        key = "%s:%s:%s" % (c.g.gid, c.rule, c.inp.encode().hex())
        if p > len(b) or (p < len(b) and (b[p] & 0xC0) == 0x80):
            out.violation("c10pos:" + key, "error position %d is not a character boundary inside %r" % (p, c.inp),
                          common.case_payload(c, st))
        if c.impl["spec"] == "sentinel":
            out.violation("c10sentinel:" + key, "LeftRecursionSentinel reported to the user", common.case_payload(c, st))
        if common.plain(c) and c.spec["k"] == "ERR":
            furthest += 1
            if (c.impl["pos"], c.impl["spec"]) != (c.spec["pos"], c.spec["spec"]):
                out.violation("c10far:" + key,
                              "reported (%d, %s), the furthest-latest failed attempt is (%d, %s)" %
                              (c.impl["pos"], c.impl["spec"], c.spec["pos"], c.spec["spec"]),
                              common.case_payload(c, st))
    common.stream_coverage(out, st, cases,
                           "failing parses of the C01 stream; non-trivial = error position > 0; distinct by (grammar, rule, input)",
                           lambda c: c.impl["pos"] > 0,
                           {"furthest_checked_against_spec": furthest, "model_vs_implementation_disagreements": bad})
