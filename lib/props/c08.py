"""C08 — whitespace skipped before every token of skipping rules only.
oracle: implementation vs extracted S on the ws-heavy families (near-miss
characters U+000B, U+00A0, U+2003 at token gaps; user-defined Whitespace)."""
from .. import stream
from . import common

FACTS = common.CODEGEN_FILES
NEAR = "\x0b\xa0 "
WS = " \t\n\x0c\r"


def check(out, ctx):
    st = stream.get(ctx)
    cases = [c for c in st["cases"] if any(ch in WS or ch in NEAR for ch in c.inp)]
    bad = common.correspondence(out, st, cases)
    checked = 0
    for c in cases:
        if c.g.meta["ctx"] or c.spec["k"] not in ("OK", "ERR") or c.impl["k"] not in ("OK", "ERR"):
            continue
        checked += 1
        ok = c.impl["k"] == c.spec["k"]
        if ok and c.impl["k"] == "OK":
            ok = c.impl["tree"] == c.spec["tree"]
        if ok and c.impl["k"] == "ERR" and common.plain(c):
            ok = (c.impl["pos"], c.impl["spec"]) == (c.spec["pos"], c.spec["spec"])
        if not ok:
            out.violation("c08:%s:%s:%s" % (c.g.gid, c.rule, c.inp.encode().hex()),
                          "whitespace handling differs from the documented skipping points on %r" % c.inp,
                          common.case_payload(c, st))
    # the callback sequence shows every entry of the Whitespace rule: a skip point that is missing or added
    # shows up as a different sequence of Whitespace entries (the model's skip points are S's: C08_points)
    wsname = "S:" + "Whitespace".encode().hex() + ":"
    for c in st["cases"]:
        a, b = c.impl.get("trace"), c.model.get("trace")
        if a is None or b is None or a == b or c.impl["k"] not in ("OK", "ERR") or c.model["k"] not in ("OK", "ERR"):
            continue
        wa = [e for e in a.split(";") if e.startswith(wsname)]
        wb = [e for e in b.split(";") if e.startswith(wsname)]
        if wa != wb:
            out.violation("c08skip:%s:%s:%s" % (c.g.gid, c.rule, c.inp.encode().hex()),
                          "the Whitespace rule is entered at other points than the documented skipping points on %r (entries %d, documented %d)" % (c.inp, len(wa), len(wb)),
                          common.case_payload(c, st))
    common.stream_coverage(out, st, cases,
                           "cases of the stream whose input contains whitespace or a near-miss character; non-trivial = grammar mixes skipping and @no_skip_ws rules or defines Whitespace; distinct by (grammar, rule, input)",
                           lambda c: ("@no_skip_ws" in c.g.text) or c.g.meta["user_ws"],
                           {"checked_against_spec": checked,
                            "near_miss_inputs": sum(1 for c in cases if any(ch in NEAR for ch in c.inp)),
                            "user_whitespace_cases": sum(1 for c in cases if c.g.meta["user_ws"]),
                            "model_vs_implementation_disagreements": bad})
