"""C18 — build-script compilation leaves the destination fresh.
proof: Props/C18.v (state machine of Compile::run over an abstract file
system; freshness under a no-confusion hypothesis; the unconditional
statement refuted).  correspondence: random histories of {edit grammar,
change prefix, delete destination, run} executed with the real
peginator_codegen::Compile in a temp directory (file mode, directory mode,
explicit destination) vs the extracted model instantiated with the real
header and the real generated code.  oracle: the property itself (after a
successful run the destination is header + prefix + code of the grammar as it
is now; a failing run leaves it byte-identical; an up-to-date destination is
not rewritten)."""
import os
import random
import shutil
import subprocess
import tempfile
import zlib
import hashlib

from .. import vp

FACTS = ["file_codegen_src_buildscript_rs", "file_codegen_src_header_rs", "file_codegen_build_rs"]


def collide(target_crc, base, tail=b"\n"):
    """a text base + 40 chars over {a,c} + tail with the given CRC-32 (CRC is affine)"""
    n = 40
    msg = bytearray(base + b"a" * n + tail)
    c0 = zlib.crc32(bytes(msg))
    basis = []
    for i in range(n):
        m = bytearray(msg)
        m[len(base) + i] ^= 0x02
        basis.append(zlib.crc32(bytes(m)) ^ c0)
    want = c0 ^ target_crc
    # gaussian elimination over GF(2)
    rows = [(basis[i], 1 << i) for i in range(n)]
    piv = {}
    for v, mask in rows:
        for b in sorted(piv, reverse=True):
            if v >> b & 1:
                v ^= piv[b][0]
                mask ^= piv[b][1]
        if v:
            piv[v.bit_length() - 1] = (v, mask)
    sel = 0
    for b in sorted(piv, reverse=True):
        if want >> b & 1:
            want ^= piv[b][0]
            sel ^= piv[b][1]
    if want:
        return None
    for i in range(n):
        if sel >> i & 1:
            msg[len(base) + i] ^= 0x02
    assert zlib.crc32(bytes(msg)) == target_crc
    return bytes(msg)


def texts():
    t1 = b"@export A = 'a' b:B;\nB = 'b';\n"
    t2 = b"@export A = x:X {',' x:X};\n@string X = {'0'..'9'}+;\n"
    bad = b"@export A = ;;\n"
    # read by the front end, rejected by the code generator
    bad2 = b"@export A = 'a' b:B;\n@string @export B = 'b';\n"
    bad3 = b"@export A = !(f:B) 'a';\nB = 'b';\n"
    coll = collide(zlib.crc32(t1), b"@export A = 'z';\n# ")
    # two valid texts that differ only in a raw CR inside a literal (and in the line ends)
    k = b"@export @no_skip_ws A = 'a\r\nb' $;\r\n"
    l = b"@export @no_skip_ws A = 'a\nb' $;\n"
    return {"1": t1, "2": t2, "x": bad, "y": bad2, "z": bad3, "c": coll, "k": k, "l": l}


PREFIXES = [b"", b"use a;", b"use a;\nuse b;", b"// p"]


def prefix_line(p):
    """what generate_prefix_header prints (codegen/src/header.rs); the byte comparison of the
    destinations below fails if the real one differs"""
    return b"// CRC-32/ISO-HDLC of the prefix: %08x\n" % zlib.crc32(p)


def check(out, ctx):
    rnd = random.Random(ctx.seed * 31 + 18)
    front = os.path.join(ctx.bin, "front")
    T = texts()
    tmp = tempfile.mkdtemp(prefix="vpc18-")
    try:
        # real header and real generated code for every text
        reg = []
        info = {}
        for k, t in T.items():
            gp = os.path.join(tmp, "t%s.ebnf" % k)
            open(gp, "wb").write(t)
            h = bytes.fromhex(vp.pipe_lines(ctx.direct, ["header\t" + t.hex()])[0])
            o = subprocess.run([front, "gen", gp], stdout=subprocess.PIPE, text=True).stdout
            code = o[5:].rstrip("\n").encode() if o.startswith("CODE\n") else None
            info[k] = (t, h, code)
            reg.append("bsreg\t%s\t%s\t%s\t%s" % (k, t.hex(), h.hex(), code.hex() if code is not None else "-"))
        # a prefix with the same CRC-32 as another one
        pcoll = collide(zlib.crc32(PREFIXES[1]), b"// ", tail=b"")
        prefixes = PREFIXES + ([pcoll] if pcoll else [])
        for p in prefixes:
            reg.append("bspfx\t%s\t%s" % (p.hex(), prefix_line(p).hex()))
        nh = 60 if ctx.tier == "quick" else 600
        hist = []
        # directed histories first (corpus): prefix shrink, CRC collision, failing runs, delete
        hist.append(["E1", "P" + PREFIXES[2].hex(), "R", "P" + PREFIXES[1].hex(), "R"])
        hist.append(["E1", "P" + PREFIXES[1].hex(), "R", "P", "R"])
        hist.append(["E1", "R", "Ec", "R"])
        hist.append(["E1", "R", "Ex", "R", "E-", "R", "E2", "R", "D", "R", "R"])
        hist.append(["E1", "R", "Ey", "R", "R", "E1", "R"])
        hist.append(["Ek", "R", "El", "R", "Ek", "R", "R"])
        hist.append(["E2", "P" + PREFIXES[1].hex(), "R", "Ez", "R", "R", "Ey", "R", "E2", "R"])
        if pcoll:
            hist.append(["E1", "P" + PREFIXES[1].hex(), "R", "P" + pcoll.hex(), "R"])
        for _ in range(nh):
            ops = []
            for _ in range(rnd.randint(3, 12)):
                r = rnd.random()
                if r < 0.3:
                    ops.append("E" + rnd.choice(["1", "2", "x", "y", "z", "c", "-", "1", "2", "k", "l"]))
                elif r < 0.5:
                    ops.append("P" + rnd.choice(prefixes).hex())
                elif r < 0.6:
                    ops.append("D")
                else:
                    ops.append("R")
            if "R" not in ops:
                ops.append("R")
            hist.append(ops)
        disagree = 0
        stale_known = 0
        nontrivial = set()
        samples = []
        runs = 0
        modes = ["file", "dest", "dir"]
        for hi, ops in enumerate(hist):
            mode = modes[hi % 3]
            d = os.path.join(tmp, "h%d" % hi)
            os.makedirs(d)
            src = os.path.join(d, "g.ebnf")
            # explicit destinations: also names that do not end in .rs
            dst = os.path.join(d, ["out.rs", "parser.rs.in", "gen.inc", "noext"][(hi // 3) % 4]) if mode == "dest" else os.path.join(d, "g.rs")
            cur_text, prefix = None, b""
            origin = None
            impl_out = []
            trace = []
            for o in ops:
                if o[0] == "E":
                    k = o[1:]
                    if k == "-":
                        if os.path.exists(src):
                            os.remove(src)
                        cur_text = None
                    else:
                        open(src, "wb").write(T[k])
                        cur_text = k
                elif o[0] == "P":
                    prefix = bytes.fromhex(o[1:])
                elif o[0] == "D":
                    if os.path.exists(dst):
                        os.remove(dst)
                    origin = None
                elif o[0] == "R":
                    runs += 1
                    before = open(dst, "rb").read() if os.path.exists(dst) else None
                    if mode == "dir" and cur_text is None:
                        # directory mode on a directory without grammar: nothing to do; skip (no source file)
                        res = "SKIP"
                    else:
                        res = vp.pipe_lines(ctx.direct, ["compile\t%s\t%s\t%s\t0\t%s" % (
                            "dir" if mode == "dir" else "file", d if mode == "dir" else src,
                            dst if mode == "dest" else "-", prefix.hex())])[0].split("\t")[0]
                    after = open(dst, "rb").read() if os.path.exists(dst) else None
                    wrote = after != before
                    impl_out.append((res, hashlib.md5(after.hex().encode()).hexdigest() if after is not None else "-"))
                    trace.append({"op": "run", "result": res, "dest_changed": wrote})
                    # ---- oracle: the property itself
                    if res == "OK" and wrote:
                        origin = (cur_text, prefix)
                    if after is None:
                        origin = None
                    if res == "OK" and cur_text is not None and info[cur_text][2] is not None:
                        want = info[cur_text][1] + prefix_line(prefix) + b"\n" + prefix + b"\n" + info[cur_text][2]
                        if after != want:
                            if not wrote and origin is not None and origin != (cur_text, prefix) and \
                                    zlib.crc32(T[origin[0]]) == zlib.crc32(T[cur_text]) and zlib.crc32(origin[1]) == zlib.crc32(prefix):
                                key = "c18:crc-collision"   # grammar texts and prefixes really have the same CRC-32 over their bytes
                            elif not wrote and origin is not None and origin[1] != prefix and origin[1].startswith(prefix):
                                key = "c18:prefix-shrink"
                            else:
                                key = "c18:wrong-content:" + " ".join(ops)
                            out.violation(key, "after a successful run the destination is not the compilation of the current grammar (history %s, mode %s)" % (" ".join(ops), mode),
                                          {"history": ops, "mode": mode, "expected_len": len(want), "observed_len": len(after) if after else None,
                                           "destination_was_produced_from": repr(origin), "current": repr((cur_text, prefix))})
                            if key in ("c18:prefix-shrink", "c18:crc-collision"):
                                stale_known += 1
                    if res == "ERR" and after != before:
                        out.violation("c18:failed-run-wrote", "a failing run changed the destination (history %s)" % " ".join(ops),
                                      {"history": ops, "mode": mode})
                    if res == "PANIC":
                        out.violation("c18:panic", "Compile::run panicked (history %s)" % " ".join(ops), {"history": ops, "mode": mode})
            # ---- model
            mops = ";".join(o for o in ops)
            if not any(t["result"] == "SKIP" for t in trace):
                m = vp.pipe_lines(ctx.model, reg + ["bs\t" + mops])[-1]
                mo = [x for x in m.split(";") if x]
                mi = [("OK" if x.split(":")[0] == "O" else "ERR", x.split(":")[2]) for x in mo]
                if mi != impl_out:
                    disagree += 1
                    if disagree <= 3:
                        out.broke("correspondence", "Compile::run vs BuildScript.run",
                                  {"history": ops, "mode": mode, "implementation": impl_out, "model": mi})
            if len(ops) >= 4:
                nontrivial.add(tuple(ops))
            if hi < 4:
                samples.append({"history": ops, "mode": mode, "runs": trace})
        # formatting (implementation only; the model's fmt is a parameter): a destination written with
        # format() is left untouched by the next run whatever rustfmt did to the prefix, and switching
        # formatting off does not make it stale
        fmt_runs = 0
        if shutil.which("rustfmt"):
            import time
            for pi, p in enumerate([b"use a;use b;", b"use   a ;\n\n\nuse b;", b"", b"use a;"]):
                d = os.path.join(tmp, "f%d" % pi)
                os.makedirs(d)
                src = os.path.join(d, "g.ebnf")
                dst = os.path.join(d, "g.rs")
                open(src, "wb").write(T["1"])

                def crun(fmt):
                    return vp.pipe_lines(ctx.direct, ["compile\tfile\t%s\t-\t%d\t%s" % (src, fmt, p.hex())])[0].split("\t")[0]
                r1 = crun(1)
                if r1 != "OK" or not os.path.exists(dst):
                    out.violation("c18:format-run:%d" % pi, "Compile with format() failed on a valid grammar (prefix %r): %s" % (p, r1), {"prefix": repr(p)})
                    continue
                m1, b1 = os.stat(dst).st_mtime_ns, open(dst, "rb").read()
                time.sleep(0.05)
                r2, r3 = crun(1), crun(0)
                m2, b2 = os.stat(dst).st_mtime_ns, open(dst, "rb").read()
                fmt_runs += 3
                if (r2, r3) != ("OK", "OK") or m2 != m1 or b2 != b1:
                    out.violation("c18:format-rewrites:%d" % pi,
                                  "a destination written with format() and prefix %r is rewritten by the next run although grammar, prefix and library did not change" % p,
                                  {"prefix": repr(p), "results": [r1, r2, r3], "rewritten": m2 != m1, "content_changed": b2 != b1,
                                   "history": "run(format); run(format); run(no format)"})
        # directory mode with several grammars (theorems C18_directory_ok / _fails / _failure_untouched): whichever
        # entry of the directory is invalid (the listing order is the file system's), the run fails; the
        # destination of the invalid grammar is left as it was; a run over valid grammars only compiles all
        dir_runs = 0
        names = ["a", "b", "c", "d"]
        for bad in range(len(names) + 1):          # the last round: the invalid grammar sits in a sub-directory
            d = os.path.join(tmp, "m%d" % bad)
            os.makedirs(os.path.join(d, "sub"))
            paths = [os.path.join(d, n + ".ebnf") for n in names] + [os.path.join(d, "sub", "e.ebnf")]
            for i, pth in enumerate(paths):
                open(pth, "wb").write(T["1"] if i % 2 == 0 else T["2"])
            open(os.path.join(d, "notes.txt"), "wb").write(b"not a grammar")

            def drun():
                return vp.pipe_lines(ctx.direct, ["compile\tdir\t%s\t-\t0\t" % d])[0].split("\t")[0]
            r1 = drun()
            dir_runs += 1
            dests = [pth[:-5] + ".rs" for pth in paths]
            if r1 != "OK" or not all(os.path.exists(x) for x in dests):
                out.violation("c18:dir-all:%d" % bad, "directory mode over valid grammars only: result %s, destinations written: %s" % (r1, [os.path.exists(x) for x in dests]),
                              {"history": "five valid grammars (one in a sub-directory); run", "result": r1})
                continue
            old = open(dests[bad], "rb").read()
            open(paths[bad], "wb").write(T["x"])          # syntax-invalid text
            r2 = drun()
            dir_runs += 1
            now = open(dests[bad], "rb").read() if os.path.exists(dests[bad]) else None
            if r2 == "OK":
                out.violation("c18:dir-reports-success:%d" % bad,
                              "directory mode returns Ok although %s is invalid (its destination still holds the compilation of the old text)" % os.path.relpath(paths[bad], d),
                              {"history": "five valid grammars; run; make %s invalid; run" % os.path.relpath(paths[bad], d), "results": [r1, r2]})
            elif r2 == "PANIC":
                out.violation("c18:panic", "Compile::run panicked in directory mode", {"history": "dir", "results": [r1, r2]})
            elif now != old:
                out.violation("c18:dir-failed-run-wrote:%d" % bad, "a failing directory run changed the destination of the invalid grammar", {"results": [r1, r2]})
        out.coverage.update({
            "directory_runs_with_several_grammars": dir_runs,
            "evaluations": runs, "distinct_nontrivial": len(nontrivial), "format_runs": fmt_runs,
            "rule": "random histories (3..12 ops) of {edit grammar to one of 2 valid / 1 syntax-invalid / 2 generator-rejected / 1 CRC-colliding text or make it unreadable, change prefix (4 prefixes incl. one that is a prefix of another), delete destination, run} in file mode, explicit-destination mode and directory mode, plus 7 directed histories; evaluations = runs of Compile; non-trivial = history of >= 4 ops; distinct by op sequence",
            "samples": samples, "histories": len(hist), "model_vs_implementation_disagreements": disagree,
            "known_stale_destinations_seen": stale_known,
        })
    finally:
        shutil.rmtree(tmp, ignore_errors=True)


def _from_other(before, info, cur):
    """the destination in place was generated from another text with the same header (CRC collision)"""
    for k, (t, h, code) in info.items():
        if k != cur and code is not None and h == info[cur][1] and before.endswith(code):
            return True
    return False
