"""C16 — code generation is deterministic and identical through every route.
proof (thin, model level): Props/C16.v (sorted type sets are canonical; route
outputs are header/prefix + the one generate_code output; the source scan for
order-dependent containers, clocks, environment and randomness finds exactly
the known, harmless occurrences).  oracle: bytes of generated code from (a) the
library call in 5 fresh processes, (b) the peginator-cli binary, (c)
Compile::run (after header and prefix), and (d) the peginate! macro (compiled
and run: same behaviour as the parser built from the library output)."""
import os
import subprocess
import sys
import tempfile
import shutil
import random

from .. import vp, genrun, stream

sys.path.insert(0, os.path.join(vp.VERIF, "tools"))
import gen  # noqa: E402

FACTS = ["scan_ambient", "file_codegen_src_", "file_cli_src_main_rs", "file_macro_src_lib_rs", "file_codegen_build_rs"]


DERIVE_LISTS = [["Debug", "Clone"], ["Clone", "Debug"], ["Debug", "Clone", "PartialEq", "Eq"], ["PartialEq", "Debug"],
                ["Debug", "Debug"], ["Eq", "PartialEq", "Clone", "Debug", "Hash"], ["Debug"], ["std::fmt::Debug", "Clone"]]


def strip_header(text):
    lines = text.split("\n")
    i = 0
    while i < len(lines) and (lines[i].startswith("//") or lines[i].strip() == ""):
        i += 1
    return "\n".join(lines[i:]).strip()


def build_cli():
    env = {"CARGO_TARGET_DIR": os.path.join(vp.CACHE, "target-repo")}
    rc, out = vp.run(["cargo", "build", "--offline", "-q", "-p", "peginator-cli"], cwd=vp.REPO, env=env, timeout=1800)
    if rc != 0:
        raise RuntimeError("peginator-cli does not build: " + out[-2000:])
    return os.path.join(vp.CACHE, "target-repo", "debug", "peginator-cli")


def check(out, ctx):
    front = os.path.join(ctx.bin, "front")
    cli = build_cli()
    n = 14 if ctx.tier == "quick" else 150
    tmp = tempfile.mkdtemp(prefix="vpc16-")
    samples = []
    evaluations = 0
    distinct = set()
    cli_opts = []
    try:
        gs = []
        for i in range(n):
            gg = gen.make(ctx.seed * 3 + 16, i, gen.Opts(p_ctx=0.0, p_hooks=0.4))
            gs.append((i, gg, gg.text()))
        # texts whose bytes matter: CRLF line ends, raw CR / LF / TAB inside literals, trailing blanks, no final newline
        directed = ["@export @no_skip_ws Line = 'a\r\nb' $;\r\n", "@export @no_skip_ws Line = \"a\r\nb\" 'c\rd' 'e\nf' 'g\th' $;\n",
                    "@export R = 'x' 'y';   \n\n\n", "@export R = 'x' 'y';", "# c\r\n@export R = 'x' # d\r\n 'y';\r\n"]
        # grammars that share rule names but not rule positions, compiled one after the other by the in-process
        # routes (the harness process runs Compile for all of them): the output must not depend on what the
        # process generated before
        directed += ["@export A = 'a' >Tail;\nTail = t:T;\nT = 't';\nU = 'u';\n",
                     "@export A = 'a' >Tail;\nX = x:U;\nTail = t:T;\nT = 't';\nU = 'u';\n",
                     "@export A = 'a' >Tail [>X];\nU = 'u';\nT = 't';\nX = x:U;\nTail = t:T u:U;\n",
                     "@export A = 'a' >Tail;\nTail = t:T;\nT = 't';\nU = 'u';\n# again\n"]
        for j, (i, gg, text) in enumerate(list(gs)[:4]):
            directed.append(text.replace("\n", "\r\n"))
        for j, text in enumerate(directed):
            gs.append(("d%d" % j, None, text))
        import glob
        for p in sorted(glob.glob(os.path.join(vp.REPO, "test/src/*/grammar.ebnf")))[: (6 if ctx.tier == "quick" else 40)]:
            gs.append((os.path.basename(os.path.dirname(p)), None, open(p, encoding="utf-8").read()))
        for (i, gg, text) in gs:
            gp = os.path.join(tmp, "g%s.ebnf" % i)
            open(gp, "w", encoding="utf-8", newline="").write(text)
            outs = []
            for k in range(5):
                env = dict(os.environ)
                env["VP_PROCESS_SALT"] = str(k)          # different environment per process
                o = subprocess.run([front, "gen", gp], stdout=subprocess.PIPE, text=True, env=env).stdout
                outs.append(o)
                evaluations += 1
            if len(set(outs)) != 1:
                out.violation("c16:runs:%s" % i, "the same grammar compiled in fresh processes gives different code", {"grammar": text})
            if not outs[0].startswith("CODE\n"):
                continue
            code = outs[0][5:].strip()
            distinct.add(code)
            c = subprocess.run([cli, gp], stdout=subprocess.PIPE, text=True)
            evaluations += 1
            if c.returncode != 0 or strip_header(c.stdout) != code:
                out.violation("c16:cli:%s" % i, "peginator-cli output differs from the library output after the header",
                              {"grammar": text, "cli_rc": c.returncode, "cli_head": c.stdout[:300]})
            # the CLI's options reach the generator unchanged: derive lists in the order given
            if "@memoize" not in text and "@leftrec" not in text and len(cli_opts) < (6 if ctx.tier == "quick" else 60):
                for ds in DERIVE_LISTS[len(cli_opts) % 2::2]:
                    lib = subprocess.run([front, "gen", gp, "derives=" + ",".join(ds)], stdout=subprocess.PIPE, text=True).stdout
                    dargs = []
                    for d in ds:
                        dargs += ["-d", d]
                    c2 = subprocess.run([cli] + dargs + [gp], stdout=subprocess.PIPE, text=True)
                    evaluations += 2
                    cli_opts.append(ds)
                    if not lib.startswith("CODE\n") or c2.returncode != 0 or strip_header(c2.stdout) != lib[5:].strip():
                        out.violation("c16:cli-derives:%s:%s" % (i, ",".join(ds)),
                                      "peginator-cli with -d %s differs from the library call with the same derive list" % " -d ".join(ds),
                                      {"grammar": text, "derives": ds, "cli_rc": c2.returncode,
                                       "cli_derive_lines": sorted(set(l.strip() for l in c2.stdout.split("\n") if "derive" in l))[:4],
                                       "library_derive_lines": sorted(set(l.strip() for l in lib.split("\n") if "derive" in l))[:4]})
            dest = os.path.join(tmp, "g%s.rs" % i)
            prefix = "use x;" if (hash(text) & 1) else ""
            r = vp.pipe_lines(ctx.direct, ["compile\tfile\t%s\t%s\t0\t%s" % (gp, dest, prefix.encode().hex())])[0]
            evaluations += 1
            body = open(dest, encoding="utf-8").read() if os.path.exists(dest) else ""
            hdr_end = 0
            blines = body.split("\n")
            while hdr_end < len(blines) and blines[hdr_end].startswith("//"):
                hdr_end += 1
            rest = "\n".join(blines[hdr_end:])
            expect = "\n" + prefix + "\n" + code
            if r != "OK" or rest.strip() != (prefix + "\n" + code).strip():
                out.violation("c16:buildscript:%s" % i, "Compile::run output differs from header + prefix + library output",
                              {"grammar": text, "result": r, "dest_head": body[:300]})
            if len(samples) < 3:
                samples.append({"grammar": text.split("\n")[0][:120], "code_bytes": len(code), "routes_equal": True})
        # one process, many grammars: every grammar compiled again by ONE harness process, in sequence and in
        # reverse, must give the code its own fresh process gave (no state survives a generation)
        fresh_code = {}
        for (i, gg, text) in gs:
            gp = os.path.join(tmp, "g%s.ebnf" % i)
            o = subprocess.run([front, "gen", gp], stdout=subprocess.PIPE, text=True).stdout
            if o.startswith("CODE\n"):
                fresh_code[i] = o[5:].strip()
        same_process = 0
        for tag, order in (("fwd", list(fresh_code)), ("rev", list(reversed(list(fresh_code))))):
            reqs, dests = [], []
            for i in order:
                dest = os.path.join(tmp, "h%s_%s.rs" % (tag, i))
                dests.append(dest)
                reqs.append("compile\tfile\t%s\t%s\t0\t" % (os.path.join(tmp, "g%s.ebnf" % i), dest))
            res = vp.pipe_lines(ctx.direct, reqs)
            for i, dest, r in zip(order, dests, res):
                body = open(dest, encoding="utf-8").read() if os.path.exists(dest) else ""
                evaluations += 1
                same_process += 1
                if r.split("\t")[0] != "OK" or strip_header(body) != fresh_code[i]:
                    text = [t for (j, _, t) in gs if j == i][0]
                    out.violation("c16:history:%s:%s" % (tag, i),
                                  "a grammar compiled after other grammars in the same process gives different code than in a fresh process",
                                  {"grammar": text, "compiled_before_it_in_this_process": [t for (j, _, t) in gs if j in order[:order.index(i)]][-3:],
                                   "result": r[:200], "order": tag})
        # the build-script route with settings: derives and user context type, in both orders of the
        # builder calls, against the library call with the same settings
        hooks_text = None
        for (i, gg, text) in gs:
            if gg is not None and ("@check" in text or "@extern" in text) and "hooks::ctx::" not in text:
                hooks_text = text
                break
        bs_settings = 0
        for bi, text in enumerate([t for t in [hooks_text, gs[0][2], "@export R = 'x' y:Y;\nY = 'y';\n"] if t]):
            gp = os.path.join(tmp, "bs%d.ebnf" % bi)
            open(gp, "w", encoding="utf-8", newline="").write(text)
            for ds in (["Debug", "Clone"], ["Debug", "Clone", "PartialEq"]):
                lib = subprocess.run([front, "gen", gp, "ctx=crate::hooks::Ctx", "derives=" + ",".join(ds)], stdout=subprocess.PIPE, text=True).stdout
                if not lib.startswith("CODE\n"):
                    continue
                for order in ("d=%s;u=crate::hooks::Ctx" % ",".join(ds), "u=crate::hooks::Ctx;d=%s" % ",".join(ds)):
                    dest = os.path.join(tmp, "bs%d.rs" % bi)
                    if os.path.exists(dest):
                        os.remove(dest)
                    r = vp.pipe_lines(ctx.direct, ["compile\tfile\t%s\t%s\t0\t\t%s" % (gp, dest, order)])[0]
                    body = open(dest, encoding="utf-8").read() if os.path.exists(dest) else ""
                    evaluations += 1
                    bs_settings += 1
                    if r != "OK" or strip_header(body) != lib[5:].strip():
                        out.violation("c16:buildscript-settings:%d:%s" % (bi, order),
                                      "Compile with the builder calls %s differs from the library call with the same settings" % order.replace(";", " then "),
                                      {"grammar": text, "builder_calls": order, "result": r,
                                       "impl_lines": sorted(set(l.strip() for l in body.split("\n") if "PegParserAdvanced" in l))[:3],
                                       "library_impl_lines": sorted(set(l.strip() for l in lib.split("\n") if "PegParserAdvanced" in l))[:3]})
        # macro route: behaviour and types through peginate!
        mg = []
        k = 0

        class Fixed:
            def __init__(self, xs):
                self.xs = xs

            def inputs(self, r, n):
                return self.xs
        # grammar texts with characters a Rust string literal has to escape: the macro is given them
        # once as a raw literal and once as an ordinary literal with escapes
        esc = [("@export @no_skip_ws P = parts:W {'\\\\' parts:W} $;\n@string @no_skip_ws W = {'a'..'z'}+;\n",
                ["usr\\local\\bin", "usr\\\\local", "usr", "usr\\", "\\usr", ""]),
               ("@export @no_skip_ws Q = \"a\\\"b\" '\\n' \"c\" '\\t' $;\n", ["a\"b\nc\t", "a\"b\\nc\t", "ab\nc\t", "a\"b\nc"]),
               ("@export R = 'x'\t\"y\";\r\n# \"quoted\" comment \\ with a backslash\r\n", ["xy", "x y", "x\ty", "x"])]
        cand = [(gg, text) for (i, gg, text) in gs if gg is not None and "#####" not in text][: (3 if ctx.tier == "quick" else 30)]
        cand += [(Fixed(xs), text) for text, xs in esc]
        for gg, text in cand:
            for lit in (("raw", "cooked") if "#####" not in text else ("cooked",)):
                a = genrun.G("gm%da" % k, text, meta={})
                b = genrun.G("gm%db" % k, text, meta={"via_macro": True, "macro_lit": lit})
                a.gg = b.gg = gg
                mg += [a, b]
                k += 1
        genrun.prepare(front, mg, os.path.join(tmp, "macro-src"))
        exes = genrun.build([g for g in mg], "c16-macro", nshards=4)
        compared = 0
        for j in range(0, len(mg), 2):
            a, b = mg[j], mg[j + 1]
            if a.gid not in exes or b.gid not in exes:
                if (a.gid in exes) != (b.gid in exes):
                    out.violation("c16:macro-build:%s" % a.gid, "only one of library route / macro route compiles",
                                  {"grammar": a.text, "macro_literal": b.meta.get("macro_lit"), "macro_call": genrun.macro_call(b)[:400],
                                   "rustc": (a.rustc_error or b.rustc_error or "")[:500]})
                continue
            for r in a.exports:
                inputs = a.gg.inputs(r, 20)
                ra = genrun.pipe_resilient(exes[a.gid], ["parse\t%s\t%s\t%s\trec" % (a.gid, r.encode().hex(), x.encode().hex()) for x in inputs])
                rb = genrun.pipe_resilient(exes[b.gid], ["parse\t%s\t%s\t%s\trec" % (b.gid, r.encode().hex(), x.encode().hex()) for x in inputs])
                for x, u, v in zip(inputs, ra, rb):
                    compared += 1
                    evaluations += 1
                    if u != v:
                        out.violation("c16:macro:%s" % a.gid, "parser from peginate! behaves differently from the parser generated by the library call on %r" % x,
                                      {"grammar": a.text, "input": x, "library": u[:300], "macro": v[:300],
                                       "macro_literal": b.meta.get("macro_lit"), "macro_call": genrun.macro_call(b)[:400]})
        out.coverage.update({
            "evaluations": evaluations, "compiled_again_in_one_process": same_process, "distinct_nontrivial": len(distinct),
            "rule": "generated grammars and repository grammars; each compiled by the library call in 5 fresh processes (different environment), by the peginator-cli binary, by Compile::run, and (a few) through peginate!; distinct = distinct generated code texts",
            "samples": samples, "macro_route_results_compared": compared, "cli_derive_lists_compared": len(cli_opts), "buildscript_settings_compared": bs_settings,
        })
    finally:
        shutil.rmtree(tmp, ignore_errors=True)
