"""C15 — the grammar compiler always answers: code, or an error — and says so.
proof: Props/C15.v (the compiler model is a total function; with well-founded
includes it needs bounded recursion; each documented restriction leads to an
error; the arity-related panic sites of the templates are unreachable).
correspondence: for valid, violating, mutated and garbage grammar texts, each
in its own process: outcome class of Grammar::from_str + generate_code ==
the compiler model's (error class, payload and failing rule included).
oracle: no panic, abort or hang outside the classes recorded as known
findings; failures are visible through peginator-cli's exit status,
Compile::run's Err and run_exit_on_error's exit status."""
import collections
import os
import re
import subprocess
import sys
import tempfile

from .. import vp, genrun, decls

sys.path.insert(0, os.path.join(vp.VERIF, "tools"))
import gen_invalid  # noqa: E402

FACTS = ["file_codegen_src_", "file_cli_src_main_rs", "insens_guard", "leftrec_needs_clone", "pos_variants_checked", "cli_exit_nonzero",
         "ca_", "oa_", "clo_all", "seq_dup", "choice_"]

SIZES = {"quick": (40, 320, 160, 120), "thorough": (300, 4000, 2500, 2000)}


def nesting_depth(text):
    d = m = 0
    for ch in text:
        if ch in "([{!&":
            d += 1
            m = max(m, d)
        elif ch in ")]}":
            d -= 1
    return m


def check(out, ctx):
    binp = vp.cargo_build("direct")
    front = os.path.join(binp, "front")
    direct = os.path.join(binp, "vp-direct")
    cs = gen_invalid.cases(ctx.seed, *SIZES[ctx.tier])
    gs = []
    for i, (label, text, derives, cx) in enumerate(cs):
        g = genrun.G("c%d" % i, text, derives=derives, meta={"label": label, "ctx_type": cx})
        gs.append(g)
    prepare(front, gs, os.path.join(vp.CACHE, "c15-src"))
    withsx = [g for g in gs if g.sexpr]
    req = ["grammar\t%s\t%s" % (g.gid, g.sexpr) for g in withsx]
    req += ["compile\t%s\t%s\t%s" % (g.gid, derive_arg(g), ctx_arg(g)) for g in withsx]
    for g, a in zip(withsx, vp.pipe_lines(ctx.model, req)[len(withsx):]):
        g.mcompile = a
    classes = collections.Counter()
    labels = collections.Counter()
    agree = 0
    for g in gs:
        labels[g.meta["label"].split(":")[0]] += 1
        payload = {"grammar": g.text if len(g.text) < 4000 else g.text[:300] + " ...(%d chars)" % len(g.text), "derives": g.derives,
                   "ctx": g.meta["ctx_type"], "generator": g.gen, "generator_message": g.gen_msg[:600], "model": g.mcompile,
                   "replay": "vp-front gen <file with this grammar> [derives=..] [ctx=..]  (harness/direct, bin front)"}
        m = (g.mcompile or "").split("\t")
        # --- totality: code or an error value, never a panic / abort / hang
        if g.gen == "TIMEOUT":
            out.violation("c15hang:" + g.gid, "the compiler did not answer within the time limit", payload)
            classes["timeout"] += 1
            continue
        if g.gen == "CRASH":
            overflow = "overflowed its stack" in g.gen_msg or "rc=-6" in g.gen_msg or "rc=134" in g.gen_msg or "rc=-11" in g.gen_msg
            if overflow:
                classes["stack-overflow"] += 1
                if m[0] == "OVERFLOW":
                    out.violation("c15:include-cycle-stack-overflow", "include cycle: stack overflow", payload)
                elif nesting_depth(g.text) >= 1500:
                    out.violation("c15:deep-nesting-stack-overflow", "deep nesting: stack overflow", payload)
                else:
                    out.violation("c15overflow:" + g.gid, "the compiler overflowed its stack", payload)
            else:
                classes["panic"] += 1
                if g.mcompile and ("idents=0" in g.mcompile):
                    out.violation("c15:identifier-panic", "identifier that cannot be built: panic", payload)
                elif g.mcompile and ("derives=0" in g.mcompile):
                    out.violation("c15:derive-name-panic", "derive name that is not an identifier: panic", payload)
                else:
                    out.violation("c15panic:" + g.gid, "the compiler panicked: " + g.gen_msg[:160], payload)
            continue
        # --- the answer is the model's
        if g.gen == "PARSE-ERROR":
            classes["parse-error"] += 1
            if g.sexpr:
                out.broke("correspondence", "front end: dump succeeded but gen reports a parse error", payload)
            continue
        if not g.mcompile:
            out.broke("correspondence", "no model answer for a grammar the front end reads", payload)
            continue
        if g.gen == "CODE":
            classes["code"] += 1
            if m[0] == "ERR":
                out.violation("c15accept:" + g.gid, "a grammar that breaks a documented restriction (%s) is accepted" % m[3], payload)
            elif m[0] != "OK":
                out.broke("correspondence", "generator answers with code, the model with %s" % m[0], payload)
            else:
                try:
                    real, _ = decls.parse_decls(g.code)
                    want = [decls.canon_model_decl(d) for d in m[1].split(";") if d]
                    if real != want:
                        out.broke("correspondence", "declarations of an accepted grammar differ from the model's", payload)
                    else:
                        agree += 1
                except ValueError:
                    pass
        elif g.gen == "ERROR":
            rule, cls = decls.classify_error(g.gen_msg)
            classes["error:" + cls.split(":")[0]] += 1
            if cls.startswith("unclassified"):
                out.broke("correspondence", "error message of the compiler is of no known class", payload)
            elif cls.startswith("bad-ident:") and m[0] == "OK" and any(b > 127 for b in bytes.fromhex(cls[10:])):
                # the compiler answered (an error value) about an identifier with non-ASCII characters: the model
                # takes every non-ASCII byte as an identifier character (the XID_Start/XID_Continue tables of
                # Unicode are not modelled), so it has no opinion here
                classes["error:bad-ident(non-ascii, outside the model's alphabet)"] += 1
            elif m[0] != "ERR" or m[3] != cls or bytes.fromhex(m[2]).decode() != (rule or ""):
                out.broke("correspondence", "the compiler reports %s in rule %s, the model %s" % (cls, rule, "\t".join(m[:4])), payload)
            else:
                agree += 1
    # --- every outcome of the model that says "violates a restriction" was exercised
    surf = surfaces(out, ctx, gs, front, direct)
    out.coverage.update({
        "evaluations": len(gs), "distinct_nontrivial": len({g.text for g in gs if g.gen in ("ERROR", "PARSE-ERROR")}),
        "rule": "grammar texts, each compiled in its own process by Grammar::from_str + generate_code; non-trivial = rejected with an error value; distinct by text",
        "samples": [{"label": g.meta["label"], "grammar": g.text[:300], "generator": g.gen, "message": g.gen_msg[:200], "model": (g.mcompile or "")[:200]}
                    for g in gs if g.gen == "ERROR"][:4],
        "input_distribution": {"by_kind": dict(labels), "by_outcome": dict(classes)},
        "model_agreements": agree, "surfaces": surf})


def derive_arg(g):
    d = ["Debug", "Clone"] if g.derives is None else g.derives
    return ",".join(x.encode().hex() for x in d) or "-"


def ctx_arg(g):
    c = g.meta.get("ctx_type")
    return ",".join(x.encode().hex() for x in c.split("::")) if c else "-"


def prepare(front, gs, workdir):
    """genrun.prepare with a free-form ctx type"""
    os.makedirs(workdir, exist_ok=True)
    from concurrent.futures import ThreadPoolExecutor

    def one(g):
        path = os.path.join(workdir, g.gid + ".ebnf")
        with open(path, "w", encoding="utf-8") as f:
            f.write(g.text)
        st, o, err = genrun._front(front, ["dump", path], timeout=60)
        if st == "OK" and o.startswith("(grammar"):
            g.sexpr = o.strip()
        args = ["gen", path]
        if g.meta.get("ctx_type"):
            args.append("ctx=" + g.meta["ctx_type"])
        if g.derives is not None:
            args.append("derives=" + ",".join(g.derives))
        st, o, err = genrun._front(front, args, timeout=60)
        if st != "OK":
            g.gen, g.gen_msg = st, err
        elif o.startswith("CODE\n"):
            g.gen, g.code = "CODE", o[5:]
        elif o.startswith("ERROR\t"):
            g.gen, g.gen_msg = "ERROR", o[6:].strip()
        elif o.startswith("PARSE-ERROR"):
            g.gen, g.gen_msg = "PARSE-ERROR", o.strip()
        else:
            g.gen, g.gen_msg = "CRASH", o[:200] + err
    with ThreadPoolExecutor(16) as ex:
        list(ex.map(one, gs))


def surfaces(out, ctx, gs, front, direct):
    """the failure is visible to the caller: cli exit status, Compile::run, run_exit_on_error"""
    from .c16 import build_cli
    cli = build_cli()
    pick = {}
    for g in gs:
        if g.derives is not None or g.meta.get("ctx_type"):
            continue
        if g.gen == "ERROR":
            k = "error:" + decls.classify_error(g.gen_msg)[1].split(":")[0]
        elif g.gen in ("PARSE-ERROR", "CODE"):
            k = g.gen
        else:
            continue
        pick.setdefault(k, [])
        if len(pick[k]) < (3 if ctx.tier == "quick" else 12):
            pick[k].append(g)
    n = 0
    tmp = tempfile.mkdtemp(prefix="c15-", dir=vp.CACHE)
    try:
        for k, lst in sorted(pick.items()):
            for g in lst:
                n += 1
                src = os.path.join(tmp, g.gid + ".ebnf")
                open(src, "w", encoding="utf-8").write(g.text)
                want_ok = (k == "CODE")
                payload = {"grammar": g.text[:3000], "class": k}
                c = subprocess.run([cli, src], stdout=subprocess.PIPE, stderr=subprocess.PIPE, text=True, timeout=120)
                if (c.returncode == 0) != want_ok:
                    out.violation("c15cli:" + g.gid, "peginator-cli exit status %d for a grammar the library %s" % (c.returncode, "accepts" if want_ok else "rejects"),
                                  dict(payload, stdout=c.stdout[:300], replay="peginator-cli <file>"))
                if not want_ok and not re.search(r"Error", c.stdout + c.stderr):
                    out.violation("c15climsg:" + g.gid, "peginator-cli prints no error for a rejected grammar", payload)
                dest = os.path.join(tmp, g.gid + ".rs")
                r = vp.pipe_lines(direct, ["compile\tfile\t%s\t%s\t0\t" % (src, dest)])[0]
                if (r == "OK") != want_ok or (not want_ok and not r.startswith("ERR")):
                    out.violation("c15run:" + g.gid, "Compile::run answers %s for a grammar the library %s" % (r[:40], "accepts" if want_ok else "rejects"), payload)
                if not want_ok and os.path.exists(dest):
                    out.violation("c15dest:" + g.gid, "Compile::run wrote the destination although compilation failed", payload)
                dest2 = os.path.join(tmp, g.gid + "_x.rs")
                e = subprocess.run([direct, "exit_on_error", src, dest2], stdout=subprocess.PIPE, stderr=subprocess.PIPE, text=True, timeout=120)
                if want_ok:
                    if e.returncode != 0 or "RETURNED" not in e.stdout:
                        out.violation("c15exit:" + g.gid, "run_exit_on_error exits with %d on a valid grammar" % e.returncode, payload)
                else:
                    if e.returncode == 0 or "RETURNED" in e.stdout:
                        out.violation("c15exit:" + g.gid, "run_exit_on_error does not exit with a failure status on a rejected grammar", payload)
                    if "error" not in e.stderr:
                        out.violation("c15exitmsg:" + g.gid, "run_exit_on_error prints no error", payload)
    finally:
        import shutil
        shutil.rmtree(tmp, ignore_errors=True)
    return {"grammars_through_cli_run_and_run_exit_on_error": n, "classes": sorted(pick)}
