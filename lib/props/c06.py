"""C06 — a memoized rule body runs at most once per position.
proof (partial): Props/C06.v (entry present after return; entries never removed;
evaluations only start on a miss; a hit evaluates nothing).  correspondence:
the model's ghost evaluation log (g_evals) is derived from the same run whose
trace equals the implementation's.  oracle on the implementation's own trace:
for every memoized non-@leftrec rule, the number of entries at an offset that
are not answered by "Cache hit" is at most 1; extern probes placed at the
start of memoized bodies are invoked at most once per remaining-input length."""
import collections
import re

from .. import stream
from . import common

FACTS = common.CODEGEN_FILES


def memo_rules(text):
    out = set()
    for m in re.finditer(r"((?:@\w+(?:\([^)]*\))?\s+)*)(\w+)\s*=", text):
        dirs = m.group(1)
        if "@memoize" in dirs and "@leftrec" not in dirs:
            out.add(m.group(2))
    return out


def memo_checks(text):
    """(rule, function name) for every @check on a memoized non-@leftrec rule whose function name occurs once in the text"""
    out = []
    for m in re.finditer(r"((?:@\w+(?:\([^)]*\))?\s+)*)(\w+)\s*=", text):
        dirs = m.group(1)
        if "@memoize" in dirs and "@leftrec" not in dirs:
            for path in re.findall(r"@check\(([^)]*)\)", dirs):
                fn = path.strip().split("::")[-1].strip()
                if fn and len(re.findall(r"\b%s\b" % re.escape(fn), text)) == 1:
                    out.append((m.group(2), fn))
    return out


def body_evals(trace, rules):
    evs = [e for e in trace.split(";") if e]
    counts = collections.Counter()
    for i, e in enumerate(evs):
        if e[0] == "S":
            _, nm, off = e.split(":")
            name = bytes.fromhex(nm).decode()
            if name in rules:
                hit = i + 1 < len(evs) and evs[i + 1] == "I:0"
                if not hit:
                    counts[(name, int(off))] += 1
    return counts


def check(out, ctx):
    st = stream.get(ctx)
    cases = [c for c in st["cases"] if c.g.meta["memo"] and c.impl["k"] in ("OK", "ERR")]
    bad = common.correspondence(out, st, cases)
    total_evals = 0
    failing_cached = 0
    probed = 0
    certified_cases = 0
    check_oracle = 0
    for c in cases:
        rules = memo_rules(c.g.text)
        cnt = body_evals(c.impl["trace"], rules)
        total_evals += sum(cnt.values())
        key = "%s:%s:%s" % (c.g.gid, c.rule, c.inp.encode().hex())
        certified = getattr(c.g, "wf_once", None) is True
        certified_cases += certified
        for (name, off), k in cnt.items():
            if k > 1:
                kk = "c06:reentrant-through-leftrec" if c.g.meta.get("corpus") == "memo_reentrant_through_leftrec" else "c06:" + key
                out.violation(kk, "body of memoized rule %s evaluated %d times at offset %d on %r%s" % (name, k, off, c.inp,
                              " (the grammar passes OnceWF.well_formed_once_all: an instance of theorem C06_certified_instances)" if certified else ""),
                              common.case_payload(c, st, rule_evaluated=name, offset=off, times=k, certified_by_well_formed_once=certified))
        if certified and sum(cnt.values()) > len(rules) * (len(c.inp.encode()) + 1):
            out.violation("c06bound:" + key, "more body evaluations (%d) than memoized rules x (input length + 1) on %r" % (sum(cnt.values()), c.inp),
                          common.case_payload(c, st))
        # model's ghost log must say the same
        mcnt = collections.Counter()
        for e in (c.model.get("evals") or "").split(";"):
            if e:
                nm, off = e.split(":")
                mcnt[(bytes.fromhex(nm).decode(), int(off))] += 1
        if {k: v for k, v in mcnt.items() if k[0] in rules} != dict(cnt):
            out.broke("correspondence", "ghost evaluation log of the model vs evaluations seen in the implementation's trace",
                      {"grammar": c.g.text, "input": c.inp, "model": dict((repr(k), v) for k, v in mcnt.items()), "implementation": dict((repr(k), v) for k, v in cnt.items())})
        # probes: when XProbe occurs exactly once in the grammar (besides its declaration), at the start of a
        # memoized body, the hook itself must be invoked at most once per remaining-input length
        uses = re.findall(r"(?<![\w)])XProbe\b(?!;)", c.g.text)
        pm = re.search(r"^([^;=\n]*@memoize[^;=\n]*)=\s*XProbe\b", c.g.text, re.M)
        # (the probe sits at the rule's entry offset only if the rule does not skip whitespace before it)
        if len(uses) == 1 and pm and "@no_skip_ws" in pm.group(1) and not c.g.meta["leftrec"]:
            probed += 1
            pl = collections.Counter(x for x in c.impl.get("hlog", "").split(";") if x.startswith("6578745f70726f6265"))
            for x, k in pl.items():
                if k > 1:
                    out.violation("c06probe:" + key, "extern probe at the start of the only probed memoized body called %d times at one position (%s)" % (k, x),
                                  common.case_payload(c, st))
        # "user check functions reachable only through such a rule are invoked at most once per position": a check
        # function that occurs once in the grammar, on a memoized rule, is called at most as often as there
        # are distinct offsets at which that rule was entered
        for rname, fn in memo_checks(c.g.text):
            calls = sum(1 for x in c.impl.get("hlog", "").split(";") if x.split(":")[0] == fn.encode().hex())
            offs = set()
            for e in c.impl["trace"].split(";"):
                if e.startswith("S:"):
                    _, nm, off = e.split(":")
                    if bytes.fromhex(nm).decode() == rname:
                        offs.add(off)
            check_oracle += 1
            if calls > len(offs):
                out.violation("c06check:" + key, "check function %s of memoized rule %s was called %d times, the rule was entered at %d distinct offsets on %r"
                              % (fn, rname, calls, len(offs), c.inp), common.case_payload(c, st, rule=rname, function=fn, calls=calls, offsets=sorted(offs)))
        if c.impl["k"] == "ERR" and "I:0" in c.impl["trace"]:
            failing_cached += 1
    # long runs (implementation only): corpus/grammars/<name>.long lists (rule, unit, n, tail); the input
    # unit*n + tail is built inside the harness, the evaluations are counted there from the recorded trace
    import glob
    import os
    from .. import vp, genrun
    long_runs = 0
    long_evals = 0
    for path in sorted(glob.glob(os.path.join(vp.VERIF, "corpus", "grammars", "*.long"))):
        nm = os.path.basename(path)[:-5]
        gid = "gk_" + nm
        if gid not in st["exes"]:
            continue
        text = open(path[:-5] + ".ebnf", encoding="utf-8").read()
        names = ",".join(sorted(r.encode().hex() for r in memo_rules(text)))
        specs = [l.split("\t") for l in open(path, encoding="utf-8").read().split("\n") if l]
        reqs = ["evals\t%s\t%s\t%s\t%s\t%s\t%s" % (gid, r.encode().hex(), u.encode().hex(), n, t.encode().hex(), names) for r, u, n, t in specs]
        res = genrun.pipe_resilient(st["exes"][gid], reqs, per_line_timeout=300.0)
        for (r, u, n, t), a in zip(specs, res):
            f = a.split("\t")
            desc = "%r * %s + %r" % (u, n, t)
            if f[0] != "EVALS" or f[1] not in ("OK", "ERR"):
                out.violation("c06long:%s:%s:%s" % (nm, r, desc), "long run of %s on %s does not finish with a result: %s" % (r, desc, a[:100]),
                              {"grammar": text, "rule": r, "input": {"unit": u, "times": int(n), "tail": t}, "answer": a[:300]})
                continue
            long_runs += 1
            long_evals += int(f[3])
            if int(f[4]) > 0:
                first = []
                for x in f[5].split(","):
                    h, off, k = x.split(":")
                    first.append({"rule": bytes.fromhex(h).decode(), "offset": int(off), "times": int(k)})
                out.violation("c06long:%s:%s:%s" % (nm, r, desc),
                              "bodies of memoized rules evaluated more than once at %s (rule, offset) pairs on %s, e.g. %s %d times at offset %d"
                              % (f[4], desc, first[0]["rule"], first[0]["times"], first[0]["offset"]),
                              {"grammar": text, "rule": r, "input": {"unit": u, "times": int(n), "tail": t}, "result": f[1], "first": first,
                               "reproduce": "parse unit*times+tail with rule %s of the grammar and count trace entries of the memoized rules that are not followed by 'Cache hit'" % r})
    common.stream_coverage(out, st, cases,
                           "cases of grammars with @memoize rules; inputs biased to failing parses; non-trivial = at least one cache hit; distinct by (grammar, rule, input)",
                           lambda c: "I:0" in c.impl.get("trace", ""),
                           {"memoized_body_evaluations_counted": total_evals, "failing_parses_with_cache_hit": failing_cached, "cases_with_single_probe_oracle": probed, "check_function_call_counts_compared": check_oracle, "long_runs": long_runs, "long_run_evaluations_counted": long_evals,
                            "memo_grammars_that_are_instances_of_C06_at_most_once": sum(1 for g in st["grammars"] if g.meta["memo"] and not g.meta["leftrec"] and getattr(g, "wf", None) is True),
                            "memo_grammars_that_are_instances_of_C06_at_most_once_lr": sum(1 for g in st["grammars"] if g.meta["memo"] and getattr(g, "wf_once", None) is True),
                            "of_those_with_leftrec_rules": sum(1 for g in st["grammars"] if g.meta["memo"] and g.meta["leftrec"] and getattr(g, "wf_once", None) is True),
                            "memo_grammars_with_leftrec_rules": sum(1 for g in st["grammars"] if g.meta["memo"] and g.meta["leftrec"]),
                            "cases_of_certified_grammars": certified_cases,
                            "memo_grammars": sum(1 for g in st["grammars"] if g.meta["memo"]),
                            "model_vs_implementation_disagreements": bad})
