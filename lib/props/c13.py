"""C13 — `>Rule` behaves like the parenthesised body.
oracle (metamorphic, no model involved): each grammar of the include family
vs its textual inlining: same public type declarations, same acceptance,
tree, positions and error position on every input."""
import re

from .. import stream
from . import common

FACTS = common.CODEGEN_FILES


def decls(code):
    """the public type declarations: everything before the first impl / mod peginator_generated"""
    i = code.find("impl peginator_generated")
    j = code.find("mod peginator_generated")
    cut = min(x for x in (i, j, len(code)) if x >= 0)
    head = code[:cut]
    k = head.rfind("# [allow")
    return re.sub(r"\s+", " ", head[:k] if k > 0 and cut == j else head).strip()


def check(out, ctx):
    st = stream.get(ctx)
    by = {}
    for c in st["cases"]:
        by[(c.g.gid, c.rule, c.inp)] = c
    gmap = {g.gid: g for g in st["grammars"]}
    pairs = 0
    cases = []
    types_checked = 0
    for g in st["grammars"]:
        if g.meta.get("twin") != "inlined":
            continue
        o = gmap[g.meta["twin_of"]]
        if o.code and g.code:
            types_checked += 1
            if decls(o.code) != decls(g.code):
                out.violation("c13types:" + o.gid, "grammar with >includes and its textual inlining declare different public types",
                              {"grammar": o.text, "inlined": g.text, "decls": decls(o.code)[:2000], "decls_inlined": decls(g.code)[:2000]})
            if (o.rustc_error is None) != (g.rustc_error is None):
                out.violation("c13rustc:" + o.gid, "only one of the two variants compiles",
                              {"grammar": o.text, "inlined": g.text, "rustc": o.rustc_error, "rustc_inlined": g.rustc_error})
    # the pairs are instances of the theorem's hypothesis: Subst.grel_b (original, twin) and fields_ok_b (original)
    from .. import vp
    tw = [g for g in st["grammars"] if g.meta.get("twin") == "inlined" and g.sexpr and gmap[g.meta["twin_of"]].sexpr]
    reqs = []
    for g in tw:
        o = gmap[g.meta["twin_of"]]
        reqs += ["grammar\t%s\t%s" % (o.gid, o.sexpr), "grammar\t%s\t%s" % (g.gid, g.sexpr), "inlrel\t%s\t%s" % (o.gid, g.gid)]
    ans = vp.pipe_lines(ctx.model, reqs)[2::3] if reqs else []
    related = 0
    related_ok = 0
    for g, a in zip(tw, ans):
        o = gmap[g.meta["twin_of"]]
        f = a.split("\t")
        if f[0] != "INLREL":
            out.broke("correspondence", "the extracted relation checker did not answer for a twin pair", {"grammar": o.text, "answer": a[:200]})
            continue
        if f[1] == "1":
            related += 1
            related_ok += f[2] == "1"
        elif o.gen == "CODE" and g.gen == "CODE":
            out.broke("correspondence", "a (grammar, inlined twin) pair is not in the relation of theorem C13_subst: the oracle would compare something the theorem does not speak about",
                      {"grammar": o.text, "inlined": g.text})
    for (gid, rule, inp), c in by.items():
        g = gmap[gid]
        if g.meta.get("twin") != "inlined":
            continue
        oc = by.get((g.meta["twin_of"], rule, inp))
        if oc is None:
            continue
        pairs += 1
        cases.append(oc)
        a, b = oc.impl, c.impl
        same = a["k"] == b["k"] and (a["k"] != "OK" or a["tree"] == b["tree"]) and \
            (a["k"] != "ERR" or (a["pos"], a["spec"]) == (b["pos"], b["spec"]))
        if not same:
            out.violation("c13:%s:%s:%s" % (oc.g.gid, rule, inp.encode().hex()),
                          "include and inlined body disagree on %r" % inp,
                          common.case_payload(oc, st, inlined_grammar=c.g.text, inlined_result=b))
    bad = common.correspondence(out, st, cases)
    common.stream_coverage(out, st, cases if cases else st["cases"][:10],
                           "pairs (grammar with `>Rule`, same grammar with every include replaced by the parenthesised body) x shared inputs; non-trivial = successful parse or error position > 0; distinct by (grammar, rule, input)",
                           lambda c: c.impl["k"] == "OK" or c.impl.get("pos", 0) > 0,
                           {"pairs_compared": pairs, "type_declarations_compared": types_checked,
                            "twin_pairs_in_the_relation_of_C13_subst": related, "of_those_with_accepted_declarations": related_ok, "twin_pairs": len(tw),
                            "model_vs_implementation_disagreements": bad})
