"""C11 — pretty errors: line/column/printed line/caret.

proof: Props/C11.v (model of error.rs with the decision points regenerated
from the source); correspondence: the real PrettyParseError driven directly
over an exhaustive small scope, compared with the extracted model; oracle:
the property's own definition, computed here independently of the model."""
import itertools
import random
import re

from .. import vp

ALPHABET = ["a", "é", "\n", " ", "\U0001F600"]


def spec(text: bytes, pos: int):
    before = text[:pos]
    line = before.count(b"\n") + 1
    start = before.rfind(b"\n") + 1
    col = len(text[start:pos].decode("utf-8")) + 1
    end = text.find(b"\n", pos)
    if end < 0:
        end = len(text)
    return line, col, text[start:end]


def rust_trim_end(b: bytes) -> bytes:
    s = b.decode("utf-8")
    # Rust's trim_end: Unicode White_Space
    ws = set("\t\n\x0b\x0c\r \x85\xa0                　")
    i = len(s)
    while i > 0 and s[i - 1] in ws:
        i -= 1
    return s[:i].encode("utf-8")


def parse_display(hexs, with_file):
    s = bytes.fromhex(hexs).decode("utf-8")
    lines = s.split("\n")
    # err / --> pos / " |  " / " |  line" / " |  caret" / ""
    if len(lines) < 6:
        return ("MALFORMED", s)
    m = re.match(r"^--> (?:Line (\d+) character (\d+)|F\.ebnf:(\d+):(\d+))$", lines[1])
    if not m:
        return ("MALFORMED", s)
    if with_file:
        l, c = int(m.group(3)), int(m.group(4))
    else:
        l, c = int(m.group(1)), int(m.group(2))
    # the printed line may itself not contain '\n'; it is lines[3] minus prefix
    if not lines[3].startswith(" |  ") or not lines[4].startswith(" |  ") or lines[2] != " |  ":
        return ("MALFORMED", s)
    printed = lines[3][4:]
    caret = lines[4][4:]
    if not caret.endswith("^") or caret.strip(" ") != "^":
        return ("MALFORMED", s)
    return ("OK", l, c, printed.encode("utf-8"), len(caret))


def cases(tier, seed):
    n = 4 if tier == "quick" else 6
    out = []
    for k in range(n + 1):
        for tup in itertools.product(ALPHABET, repeat=k):
            t = "".join(tup)
            bs = t.encode("utf-8")
            offs = [0]
            for ch in t:
                offs.append(offs[-1] + len(ch.encode("utf-8")))
            for p in offs:
                out.append((bs, p))
    rnd = random.Random(seed)
    extra = 300 if tier == "quick" else 5000
    alpha2 = ALPHABET + ["\t", "\r", "b", "　", " ", "x" * 40]
    for _ in range(extra):
        t = "".join(rnd.choice(alpha2) for _ in range(rnd.randint(0, 30)))
        bs = t.encode("utf-8")
        offs = [0]
        for ch in t:
            offs.append(offs[-1] + len(ch.encode("utf-8")))
        out.append((bs, rnd.choice(offs)))
        out.append((bs, len(bs)))
    return out


def check(out, ctx):
    cs = cases(ctx.tier, ctx.seed)
    reqs = []
    for (bs, p) in cs:
        for f in (0, 1):
            reqs.append("pretty\t%s\t%d\t%d" % (bs.hex(), p, f))
    impl = vp.pipe_lines(ctx.direct, reqs)
    model = vp.pipe_lines(ctx.model, reqs)
    disagree = 0
    nontrivial = set()
    samples = []
    dist = {"empty": 0, "eoi": 0, "on_newline": 0, "after_newline": 0, "multibyte_before": 0, "other": 0}
    for i, r in enumerate(reqs):
        bs, p = cs[i // 2]
        f = i % 2
        # --- implementation vs property (oracle) ---
        if impl[i] == "PANIC":
            got = ("PANIC",)
        else:
            got = parse_display(impl[i].split("\t")[1], f)
        want_l, want_c, want_line = spec(bs, p)
        want = ("OK", want_l, want_c, rust_trim_end(want_line), want_c)
        if got != want:
            key = "pretty:%s@%d" % (bs.hex(), p)
            out.violation(key, "from_parse_error on text %r position %d: got %r, the property requires %r" % (bs, p, got, want),
                          {"text_hex": bs.hex(), "position": p, "with_file": f, "observed": repr(got), "expected": repr(want),
                           "reproduce": "printf 'pretty\\t%s\\t%d\\t%d\\n' | NO_COLOR=1 %s" % (bs.hex(), p, f, ctx.direct)})
        # --- implementation vs model (correspondence) ---
        if model[i] == "PANIC":
            m = ("PANIC",)
        else:
            _, ml, mc, mline = (model[i].split("\t") + [""])[:4]
            m = ("OK", int(ml), int(mc), rust_trim_end(bytes.fromhex(mline)), int(mc))
        if m != got:
            disagree += 1
            if disagree <= 3:
                out.broke("correspondence", "Pretty.from_parse_error vs PrettyParseError::from_parse_error",
                          "text %r pos %d: model %r implementation %r" % (bs, p, m, got))
        if f == 0:
            if len(bs) == 0:
                dist["empty"] += 1
            elif p == len(bs):
                dist["eoi"] += 1
            elif bs[p:p + 1] == b"\n":
                dist["on_newline"] += 1
            elif p > 0 and bs[p - 1:p] == b"\n":
                dist["after_newline"] += 1
            elif any(x >= 0x80 for x in bs[:p]):
                dist["multibyte_before"] += 1
            else:
                dist["other"] += 1
            if len(bs) > 0:
                nontrivial.add((bs, p))
        if len(samples) < 6 and i % 997 == 5:
            samples.append({"text": bs.decode("utf-8"), "position": p, "with_file": bool(f),
                            "implementation": repr(got), "model": repr(m)})
    out.coverage.update({
        "evaluations": len(reqs),
        "distinct_nontrivial": len(nontrivial),
        "rule": "all texts of <= %d characters over {a, e-acute, newline, space, U+1F600} x all character-boundary positions 0..=len x {with, without file name}, plus seeded random longer texts; non-trivial = non-empty text; distinct by (text, position)" % (4 if ctx.tier == "quick" else 6),
        "exhaustive": True,
        "samples": samples,
        "input_distribution": dist,
        "model_vs_implementation_disagreements": disagree,
    })
