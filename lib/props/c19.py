"""C19 — tracing changes nothing but the log.
proof: Props/C19.v (balance of the callback sequence, all grammars).
correspondence: the recording tracer's sequence equals the model's log.
oracle: the implementation's own sequence is balanced; parse with NoopTracer,
with the recording tracer and with the real IndentedTracer (debug build,
overflow checks on) return the same result."""
import collections

from .. import stream, genrun
from . import common

FACTS = common.CODEGEN_FILES


def balance(trace):
    d = 0
    for ev in trace.split(";"):
        if not ev:
            continue
        if ev[0] == "S":
            d += 1
        elif ev[0] in "OE":
            d -= 1
            if d < 0:
                return "exit without entry (indentation underflow)"
    return None if d == 0 else "unmatched entries at the end (depth %d)" % d


def check(out, ctx):
    st = stream.get(ctx)
    cases = st["cases"]
    bad = common.correspondence(out, st, cases)
    for c in cases:
        if c.impl["k"] in ("OK", "ERR"):
            why = balance(c.impl["trace"])
            if why:
                out.violation("c19bal:%s:%s:%s" % (c.g.gid, c.rule, c.inp.encode().hex()),
                              "tracer callbacks not properly nested on %r: %s" % (c.inp, why), common.case_payload(c, st))
    # plain parse vs parse_with_trace (real IndentedTracer) on a sample
    step = max(1, len(cases) // (600 if ctx.tier == "quick" else 6000))
    sample = cases[::step] + [c for c in cases if c.g.meta.get("family") == "corpus"] + \
        [c for c in cases if len(c.inp.encode()) > 45 and any(ord(ch) > 127 for ch in c.inp)][:400]
    by_exe = collections.defaultdict(list)
    for k, c in enumerate(sample):
        by_exe[st["exes"][c.g.gid]].append(k)
    compared = 0
    for exe, ks in by_exe.items():
        reqs = []
        for k in ks:
            c = sample[k]
            for mode in ("noop", "indent"):
                reqs.append("parse\t%s\t%s\t%s\t%s" % (c.g.gid, c.rule.encode().hex(), c.inp.encode().hex(), mode))
        res = genrun.pipe_resilient(exe, reqs)
        for i, k in enumerate(ks):
            c = sample[k]
            a, b = stream.parse_impl(res[2 * i]), stream.parse_impl(res[2 * i + 1])
            compared += 1

            def core(r):
                return (r["k"], r.get("tree"), r.get("pos"), r.get("spec"))
            if not (core(a) == core(b) == core(c.impl)):
                out.violation("c19same:%s:%s:%s" % (c.g.gid, c.rule, c.inp.encode().hex()),
                              "parse, parse with a recording tracer and parse_with_trace disagree on %r" % c.inp,
                              common.case_payload(c, st, noop=a, indented=b))
    common.stream_coverage(out, st, cases,
                           "whole stream with the recording tracer; a sample re-run with NoopTracer and the real IndentedTracer; non-trivial = at least 3 rule entries in the trace; distinct by (grammar, rule, input)",
                           lambda c: c.impl.get("trace", "").count("S:") >= 3,
                           {"model_vs_implementation_disagreements": bad, "noop_vs_indented_compared": compared,
                            "traces_with_cache_hit": sum(1 for c in cases if "I:0" in c.impl.get("trace", "")),
                            "traces_with_leftrec_loop": sum(1 for c in cases if "I:2" in c.impl.get("trace", ""))})
