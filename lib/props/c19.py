"""C19 — tracing changes nothing but the log.
proof: Props/C19.v (balance of the callback sequence, all grammars).
correspondence: the recording tracer's sequence equals the model's log.
oracle: the implementation's own sequence is balanced; parse with NoopTracer,
with the recording tracer and with the real IndentedTracer (debug build,
overflow checks on) return the same result."""
import collections

from .. import stream, genrun
from . import common

FACTS = common.CODEGEN_FILES


def balance(trace):
    d = 0
    for ev in trace.split(";"):
        if not ev:
            continue
        if ev[0] == "S":
            d += 1
        elif ev[0] in "OE":
            d -= 1
            if d < 0:
                return "exit without entry (indentation underflow)"
    return None if d == 0 else "unmatched entries at the end (depth %d)" % d


def check(out, ctx):
    st = stream.get(ctx)
    cases = st["cases"]
    bad = common.correspondence(out, st, cases)
    for c in cases:
        if c.impl["k"] in ("OK", "ERR"):
            why = balance(c.impl["trace"])
            if why:
                out.violation("c19bal:%s:%s:%s" % (c.g.gid, c.rule, c.inp.encode().hex()),
                              "tracer callbacks not properly nested on %r: %s" % (c.inp, why), common.case_payload(c, st))
    # plain parse vs parse_with_trace (real IndentedTracer) on a sample
    step = max(1, len(cases) // (600 if ctx.tier == "quick" else 6000))
    sample = cases[::step] + [c for c in cases if c.g.meta.get("family") == "corpus"] + \
        [c for c in cases if len(c.inp.encode()) > 45 and any(ord(ch) > 127 for ch in c.inp)][:400]
    hang = common.hanging(st)
    sample = [c for c in sample if c.g.gid not in hang]
    # (grammar, rule, input, reference or None): the sampled stream cases, and the same inputs with a
    # line end / blanks appended (no model answer for those: the entry points are compared with each other)
    runs = [(c, c.inp, c.impl) for c in sample]
    tails = ["\n", "\r\n", " ", "\t\n", "\n\n"]
    for j, c in enumerate(sample[:: max(1, len(sample) // (300 if ctx.tier == "quick" else 3000))]):
        runs.append((c, c.inp + tails[j % len(tails)], None))
    by_exe = collections.defaultdict(list)
    for k, (c, inp, ref) in enumerate(runs):
        by_exe[st["exes"][c.g.gid]].append(k)
    compared = 0
    entry_points = 0
    for exe, ks in by_exe.items():
        reqs = []
        for k in ks:
            c, inp, ref = runs[k]
            modes = ("noop", "indent") if c.g.ctx else ("noop", "indent", "pub", "pubtrace")
            for mode in modes:
                reqs.append((k, mode, "parse\t%s\t%s\t%s\t%s" % (c.g.gid, c.rule.encode().hex(), inp.encode().hex(), mode)))
        res = genrun.pipe_resilient(exe, [r[2] for r in reqs])
        got = collections.defaultdict(dict)
        for (k, mode, _), r in zip(reqs, res):
            got[k][mode] = stream.parse_impl(r)
        for k in ks:
            c, inp, ref = runs[k]
            compared += 1

            def core(r):
                return repr((r["k"], r.get("tree"), r.get("pos"), r.get("spec")))
            cores = {m: core(r) for m, r in got[k].items()}
            if ref is not None:
                cores["recording"] = core(ref)
            entry_points += len(cores)
            if len(set(cores.values())) != 1:
                out.violation("c19same:%s:%s:%s" % (c.g.gid, c.rule, inp.encode().hex()),
                              "parse (NoopTracer), the recording tracer, IndentedTracer, PegParser::parse and PegParser::parse_with_trace disagree on %r: %s"
                              % (inp, "; ".join("%s=%s" % (m, str(v)[:80]) for m, v in sorted(cores.items()))),
                              common.case_payload(c, st, input_run=inp, results={m: got[k][m] for m in got[k]}))
    common.stream_coverage(out, st, cases,
                           "whole stream with the recording tracer; a sample re-run with NoopTracer and the real IndentedTracer; non-trivial = at least 3 rule entries in the trace; distinct by (grammar, rule, input)",
                           lambda c: c.impl.get("trace", "").count("S:") >= 3,
                           {"model_vs_implementation_disagreements": bad, "noop_vs_indented_compared": compared, "entry_point_results_compared": entry_points,
                            "traces_with_cache_hit": sum(1 for c in cases if "I:0" in c.impl.get("trace", "")),
                            "traces_with_leftrec_loop": sum(1 for c in cases if "I:2" in c.impl.get("trace", ""))})
