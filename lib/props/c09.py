"""C09 — @position ranges are exactly the consumed span.
oracle on the implementation's tree: ranges inside the input on char
boundaries, children inside parents, siblings ordered and disjoint, root
starts at 0, @string @position string == input slice; and tree == S tree."""
from .. import stream
from . import common

FACTS = common.CODEGEN_FILES


def walk(tree, b, lo, hi, errs, depth=0):
    """returns (first_start, last_end) of the ranges inside tree, checking nesting/ordering"""
    k = tree[0]
    if k == "struct":
        pos = None
        for (n, v) in tree[2]:
            if n == "position" and v[0] == "range":
                pos = (v[1], v[2])
        inner_lo, inner_hi = lo, hi
        if pos:
            a, e = pos
            if not (lo <= a <= e <= hi):
                errs.append("range %d..%d outside its parent's %d..%d" % (a, e, lo, hi))
            for x in (a, e):
                if x > len(b) or (x < len(b) and (b[x] & 0xC0) == 0x80):
                    errs.append("range end %d not on a char boundary" % x)
            inner_lo, inner_hi = a, e
            strs = [v for (n, v) in tree[2] if n == "string" and v[0] == "str"]
            if strs and len(tree[2]) == 2 and strs[0][1] != b[a:e]:
                errs.append("@string @position: string %r != slice %r" % (strs[0][1], b[a:e]))
        cur = inner_lo
        for (n, v) in tree[2]:
            if n == "position":
                continue
            cur = walk_seq(v, b, cur, inner_hi, errs, depth + 1)
        return pos[1] if pos else cur
    return walk_seq(tree, b, lo, hi, errs, depth)


def walk_seq(v, b, cur, hi, errs, depth):
    k = v[0]
    if k in ("some", "enum"):
        return walk(v[-1], b, cur, hi, errs, depth)
    if k == "list":
        for x in v[1]:
            cur = walk(x, b, cur, hi, errs, depth)
        return cur
    if k == "struct":
        return walk(v, b, cur, hi, errs, depth)
    return cur


def has_pos(tree):
    return "('range'," in repr(tree)


def check(out, ctx):
    st = stream.get(ctx)
    cases = [c for c in st["cases"] if c.impl["k"] == "OK" and c.impl.get("tree") is not None and has_pos(c.impl["tree"])]
    bad = common.correspondence(out, st, cases)
    for c in cases:
        b = c.inp.encode("utf-8")
        errs = []
        t = c.impl["tree"]
        if t[0] == "struct":
            for (n, v) in t[2]:
                if n == "position" and v[1] != 0:
                    errs.append("exported root starts at %d, not 0" % v[1])
        # fields of one struct are visited in declaration order, which is not input order in
        # general; the ordering check is therefore applied per field list only (walk_seq)
        walk_children(t, b, errs)
        if not c.g.meta["ctx"] and c.spec["k"] == "OK" and c.impl["tree"] != c.spec["tree"]:
            errs.append("tree (with its ranges) differs from the spans of the specification")
        if errs:
            out.violation("c09:%s:%s:%s" % (c.g.gid, c.rule, c.inp.encode().hex()),
                          "; ".join(errs[:3]), common.case_payload(c, st, errors=errs))
    common.stream_coverage(out, st, cases,
                           "successful parses whose tree contains at least one @position range; non-trivial = input has a multi-byte character or leading whitespace; distinct by (grammar, rule, input)",
                           lambda c: any(ord(ch) > 127 for ch in c.inp) or c.inp[:1] in " \t\n",
                           {"model_vs_implementation_disagreements": bad})


def walk_children(tree, b, errs, lo=0, hi=None):
    """every range lies inside the nearest enclosing range; elements of one Vec are ordered"""
    if hi is None:
        hi = len(b)
    k = tree[0]
    if k == "struct":
        pos = None
        for (n, v) in tree[2]:
            if n == "position" and v[0] == "range":
                pos = (v[1], v[2])
        if pos:
            a, e = pos
            if not (lo <= a <= e <= hi):
                errs.append("range %d..%d outside the enclosing %d..%d" % (a, e, lo, hi))
            for x in (a, e):
                if x > len(b) or (x < len(b) and (b[x] & 0xC0) == 0x80):
                    errs.append("range end %d not on a char boundary" % x)
            strs = [v for (n, v) in tree[2] if n == "string" and v[0] == "str"]
            if strs and len(tree[2]) == 2 and strs[0][1] != b[a:e]:
                errs.append("@string @position: string %r != slice %r" % (strs[0][1], b[a:e]))
            lo, hi = a, e
        for (n, v) in tree[2]:
            if n != "position":
                walk_children(v, b, errs, lo, hi)
    elif k in ("some", "enum"):
        walk_children(tree[-1], b, errs, lo, hi)
    elif k == "list":
        cur = lo
        for x in tree[1]:
            r = first_range(x)
            if r:
                if r[0] < cur:
                    errs.append("successive matches overlap or are out of order: %d..%d after offset %d" % (r[0], r[1], cur))
                cur = r[1]
            walk_children(x, b, errs, lo, hi)


def first_range(tree):
    k = tree[0]
    if k == "struct":
        for (n, v) in tree[2]:
            if n == "position" and v[0] == "range":
                return (v[1], v[2])
        return None
    if k in ("some", "enum"):
        return first_range(tree[-1])
    return None
