"""C05 — @memoize is transparent.
proof (partial): Props/C05.v (wrapper-level theorems: a hit returns the stored
result, a miss the body's result and stores it; fresh cache per call; the
unmarked grammar equals the PEG spec).  oracle (metamorphic, no model): every
grammar with @memoize markers vs the same grammar with all markers removed:
same acceptance and same tree on every input; and results do not depend on
the parses made earlier in the same process (re-run in reverse order)."""
import collections

from .. import stream, genrun
from . import common

FACTS = [f for f in common.CODEGEN_FILES if f != "memo_closed"] + ["scan_shared_state"]


def check(out, ctx):
    st = stream.get(ctx)
    by = {(c.g.gid, c.rule, c.inp): c for c in st["cases"]}
    gmap = {g.gid: g for g in st["grammars"]}
    pairs = 0
    cases = []
    hits = 0
    for (gid, rule, inp), c in by.items():
        g = gmap[gid]
        if g.meta.get("twin") != "nomemo":
            continue
        oc = by.get((g.meta["twin_of"], rule, inp))
        if oc is None:
            continue
        pairs += 1
        cases.append(oc)
        if "I:0" in oc.impl.get("trace", ""):
            hits += 1
        a, b = oc.impl, c.impl
        same = a["k"] == b["k"] and (a["k"] != "OK" or a["tree"] == b["tree"])
        if not same:
            out.violation("c05:%s:%s:%s" % (oc.g.gid, rule, inp.encode().hex()),
                          "grammar with @memoize and the same grammar without it disagree on %r" % inp,
                          common.case_payload(oc, st, unmarked_grammar=c.g.text, unmarked_result=b))
    # the specification never looks at @memoize (MemoSpec.srun_strip): it is the meaning of the unmarked grammar
    for c in st["cases"]:
        if not c.g.meta["memo"] or c.g.meta["leftrec"] or c.g.meta["ctx"]:
            continue
        if c.impl["k"] not in ("OK", "ERR") or c.spec["k"] not in ("OK", "ERR"):
            continue
        if c.impl["k"] != c.spec["k"] or (c.impl["k"] == "OK" and c.impl["tree"] != c.spec["tree"]):
            out.violation("c05spec:%s:%s:%s" % (c.g.gid, c.rule, c.inp.encode().hex()[:64]),
                          "a grammar with @memoize rules does not accept / build what the unmarked grammar means on an input of %d bytes" % len(c.inp.encode()),
                          common.case_payload(c, st))
    bad = common.correspondence(out, st, cases)
    # history independence: the memoized grammars' cases again, in reverse order, in one process per shard
    hang = common.hanging(st)
    rev = [c for c in reversed(cases) if c.g.gid not in hang][: (800 if ctx.tier == "quick" else 8000)]
    by_exe = collections.defaultdict(list)
    for k, c in enumerate(rev):
        by_exe[st["exes"][c.g.gid]].append(k)
    redo = 0
    for exe, ks in by_exe.items():
        res = genrun.pipe_resilient(exe, ["parse\t%s\t%s\t%s\trec" % (rev[k].g.gid, rev[k].rule.encode().hex(), rev[k].inp.encode().hex()) for k in ks])
        for k, r in zip(ks, res):
            redo += 1
            if not stream.same_result(stream.parse_impl(r), rev[k].impl):
                out.violation("c05hist:%s:%s:%s" % (rev[k].g.gid, rev[k].rule, rev[k].inp.encode().hex()),
                              "the result of a parse depends on the parses made before it", common.case_payload(rev[k], st, second_run=r[:300]))
    common.stream_coverage(out, st, cases if cases else st["cases"][:10],
                           "pairs (grammar with @memoize on a random subset of rules, same grammar without markers) x shared inputs; non-trivial = the memoized parse had a cache hit; distinct by (grammar, rule, input)",
                           lambda c: "I:0" in c.impl.get("trace", ""),
                           {"pairs_compared": pairs, "pairs_with_cache_hit": hits, "reordered_reruns": redo,
                            "model_vs_implementation_disagreements": bad})
