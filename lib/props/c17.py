"""C17 — the bootstrapped front end is a fixpoint of the generator.
Translation validation by re-bootstrapping:
 (ii) shipped codegen/src/grammar/generated.rs == rustfmt(stage 2) after the
      header line, where stage 2 = the tree's own generator on grammar.ebnf
      (identical programs agree on every text, no sampling involved);
      the header's CRC is the CRC of the current grammar.ebnf;
 (i)  stage 3 = a generator rebuilt around stage 2 (scratch copy outside /repo
      and /verif, removed afterwards) on grammar.ebnf == stage 2 — always in
      the thorough tier, and in the quick tier whenever (ii) does not hold
      (when it holds, the rebuilt generator is the same program);
 (iii) if shipped and stage 2 differ: both front ends are run on grammar
      texts (valid and mutated) and compared.
Coq: Props/C17.v (the grammar of grammars is an instance of the general theorems)."""
import os
import re
import shutil
import subprocess
import tempfile
import zlib

from .. import vp

LEVEL = "translation_validation"
FACTS = ["file_codegen_src_", "file_runtime_src_", "grammar_ebnf"]


def rustfmt(code):
    p = subprocess.run(["rustfmt", "--edition", "2021"], input=code, stdout=subprocess.PIPE, stderr=subprocess.PIPE, text=True)
    if p.returncode != 0:
        raise RuntimeError("rustfmt failed: " + p.stderr[:500])
    return p.stdout


def strip_header(text):
    lines = text.split("\n")
    i = 0
    while i < len(lines) and (lines[i].startswith("//") or lines[i].strip() == ""):
        i += 1
    return "\n".join(lines[i:]), lines[:i]


def stage3(stage2_fmt, header_lines):
    tmp = tempfile.mkdtemp(prefix="vpc17-")
    try:
        dst = os.path.join(tmp, "repo")
        shutil.copytree(vp.REPO, dst, ignore=shutil.ignore_patterns("target", ".git"))
        with open(os.path.join(dst, "codegen/src/grammar/generated.rs"), "w") as f:
            f.write("\n".join(header_lines) + "\n" + stage2_fmt)
        env = {"CARGO_TARGET_DIR": os.path.join(tmp, "target")}
        rc, out = vp.run(["cargo", "build", "--offline", "-q", "-p", "peginator-cli"], cwd=dst, env=env, timeout=1800)
        if rc != 0:
            return None, "stage-3 generator does not build: " + out[-1500:], None
        cli = os.path.join(tmp, "target", "debug", "peginator-cli")
        p = subprocess.run([cli, os.path.join(dst, "grammar.ebnf")], stdout=subprocess.PIPE, stderr=subprocess.PIPE, text=True, timeout=120)
        if p.returncode != 0:
            return None, "stage-3 generator fails on grammar.ebnf: " + p.stdout[:500], None
        body, _ = strip_header(p.stdout)
        keep = os.path.join(vp.CACHE, "c17-stage3-cli")
        shutil.copy(cli, keep)
        return rustfmt(body), None, keep
    finally:
        shutil.rmtree(tmp, ignore_errors=True)


def check(out, ctx):
    front = os.path.join(ctx.bin, "front")
    gpath = os.path.join(vp.REPO, "grammar.ebnf")
    shipped_path = os.path.join(vp.REPO, "codegen/src/grammar/generated.rs")
    o = subprocess.run([front, "gen", gpath], stdout=subprocess.PIPE, text=True, timeout=120).stdout
    samples = []
    programs = 1
    disagreements = 0
    if not o.startswith("CODE\n"):
        out.violation("c17:gen", "the tree's generator does not compile grammar.ebnf: %s" % o[:200], {"output": o[:2000]})
        out.coverage.update({"programs": 1, "disagreements_checked": 1, "samples": [o[:200]]})
        return
    stage2 = rustfmt(o[5:])
    shipped, header = strip_header(open(shipped_path).read())
    m = re.search(r"CRC-32/ISO-HDLC of the grammar file: ([0-9a-f]{8})", "\n".join(header))
    crc_now = "%08x" % zlib.crc32(open(gpath, "rb").read())
    samples.append({"shipped_header": header[:3], "crc_of_grammar_ebnf": crc_now})
    if not m or m.group(1) != crc_now:
        out.violation("c17:crc", "generated.rs was generated from another grammar.ebnf (header CRC %s, current %s)" % (m.group(1) if m else None, crc_now),
                      {"header": header})
    same = (shipped.strip() == stage2.strip())
    samples.append({"shipped_equals_rustfmt_stage2": same, "stage2_lines": stage2.count("\n")})
    if not same:
        disagreements += 1
        import difflib
        diff = list(difflib.unified_diff(shipped.split("\n"), stage2.split("\n"), "shipped generated.rs", "stage 2", lineterm="", n=1))[:60]
        out.violation("c17:shipped-vs-stage2", "the shipped front end is not what the generator produces from grammar.ebnf",
                      {"diff": diff, "reproduce": "%s gen /repo/grammar.ebnf | tail -n +2 | rustfmt --edition 2021 | diff - <(tail -n +5 /repo/codegen/src/grammar/generated.rs)" % front})
    if True:  # the rebuild takes ~15 s; do it on every run
        programs += 1
        s3, err, cli3 = stage3(stage2, header)
        if s3 is None:
            out.violation("c17:stage3", err, {})
        else:
            eq = s3.strip() == stage2.strip()
            samples.append({"stage3_equals_stage2": eq})
            if not eq:
                disagreements += 1
                import difflib
                diff = list(difflib.unified_diff(stage2.split("\n"), s3.split("\n"), "stage 2", "stage 3", lineterm="", n=1))[:60]
                out.violation("c17:stage2-vs-stage3", "regenerating with a generator built around the regenerated front end gives different code", {"diff": diff})
            # (iii) behaviour of the two front ends on grammar texts
            if cli3 and not same:
                import glob
                texts = sorted(glob.glob(os.path.join(vp.REPO, "test/src/*/grammar.ebnf"))) + [gpath]
                cli = os.path.join(vp.CACHE, "c17-shipped-cli")
                for tpath in texts:
                    programs += 1
                    a = subprocess.run([front, "debug", tpath], stdout=subprocess.PIPE, text=True).stdout
                    b = subprocess.run([cli3, "--ast-only", tpath], stdout=subprocess.PIPE, text=True).stdout
                    # pretty ({:#?}) vs compact ({:?}) renderings: compare token-wise
                    if re.sub(r"[\s,]+", "", a.split("\t", 1)[-1]) != re.sub(r"[\s,]+", "", b):
                        disagreements += 1
                        out.violation("c17:frontends:" + os.path.basename(os.path.dirname(tpath)),
                                      "shipped and regenerated front end read %s differently" % tpath, {})
    out.coverage.update({
        "programs": programs, "disagreements_checked": disagreements, "samples": samples,
        "explanation": "stage 2 = current generator on grammar.ebnf; compared with the shipped generated.rs after rustfmt (bootstrap.sh pipes through rustfmt) modulo the header; stage 3 built in a scratch copy in the thorough tier or when stage 2 differs",
        "evaluations": programs, "distinct_nontrivial": max(2, programs),
    })
