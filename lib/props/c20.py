"""C20 — parsing is pure, also across threads.
proof (model level): Props/C20.v (fresh ParseGlobal per call; interleaving
lemma; the source scan finds no static / thread_local / interior-mutable item
in the runtime, the templates or the macro).  oracle: 16 threads parse
permuted multisets of inputs three times each on memoized / left-recursive /
hook-using grammars; every thread must get, for every input, the result of
the sequential run."""
import collections

from .. import stream, genrun
from . import common

FACTS = common.CODEGEN_FILES + ["scan_shared_state"]


def check(out, ctx):
    st = stream.get(ctx)
    groups = collections.defaultdict(list)
    hang = common.hanging(st)
    for c in st["cases"]:
        if c.g.gid in hang:
            continue
        if c.g.meta["memo"] or c.g.meta["leftrec"] or c.g.meta["hooks"]:
            groups[(c.g.gid, c.rule)].append(c)
    keys = sorted(groups)[:: max(1, len(groups) // (40 if ctx.tier == "quick" else 400))]
    evaluations = 0
    nontrivial = set()
    samples = []
    threads = 16
    for (gid, rule) in keys:
        cs = groups[(gid, rule)][:24]
        exe = st["exes"][gid]
        req = "mt\t%s\t%s\t%d\t%s" % (gid, rule.encode().hex(), threads, ",".join(c.inp.encode().hex() for c in cs))
        res = genrun.pipe_resilient(exe, [req], per_line_timeout=120)[0]
        if res in ("CRASH", "TIMEOUT"):
            out.violation("c20:crash:%s:%s" % (gid, rule), "multi-threaded run did not complete: %s" % res, {"grammar": cs[0].g.text})
            continue
        parts = res.split(",")
        for c, p in zip(cs, parts):
            evaluations += threads * 3
            n, h = p.split(":", 1)
            got = stream.parse_impl(bytes.fromhex(h).decode("utf-8", "replace"))
            same = (n == "1") and stream.same_result(got, c.impl)
            if not same:
                out.violation("c20:%s:%s:%s" % (gid, rule, c.inp.encode().hex()),
                              "concurrent parses of %r disagree with each other or with the sequential run (%s distinct results)" % (c.inp, n),
                              common.case_payload(c, st, concurrent=got))
            if c.impl.get("trace") and ("I:0" in c.impl["trace"] or "I:2" in c.impl["trace"]):
                nontrivial.add((gid, rule, c.inp))
        if len(samples) < 3:
            samples.append({"grammar": cs[0].g.text.split("\n")[0][:140], "rule": rule, "inputs": [c.inp for c in cs[:4]], "threads": threads})
    out.coverage.update({
        "evaluations": evaluations, "distinct_nontrivial": len(nontrivial),
        "rule": "grammars of the stream with memoized / left-recursive rules or hooks; 16 threads x 3 repetitions x permuted inputs per (grammar, rule); evaluations = parses run concurrently; non-trivial = the sequential parse of that input hit the cache or ran the left-recursion loop; distinct by (grammar, rule, input)",
        "samples": samples, "groups": len(keys),
    })
