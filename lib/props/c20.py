"""C20 — parsing is pure, also across threads.
proof (model level): Props/C20.v (fresh ParseGlobal per call; interleaving
lemma; the source scan finds no static / thread_local / interior-mutable item
in the runtime, the templates or the macro).  oracle: 16 threads parse
permuted multisets of inputs three times each on memoized / left-recursive /
hook-using grammars; every thread must get, for every input, the result of
the sequential run; look-alike inputs (same low bits of the code points) parsed
before and after each other in one process give what a fresh process gives."""
import collections

from .. import stream, genrun
from . import common

FACTS = common.CODEGEN_FILES + ["scan_shared_state"]


def check(out, ctx):
    st = stream.get(ctx)
    groups = collections.defaultdict(list)
    hang = common.hanging(st)
    for c in st["cases"]:
        if c.g.gid in hang:
            continue
        if c.g.meta["memo"] or c.g.meta["leftrec"] or c.g.meta["hooks"]:
            groups[(c.g.gid, c.rule)].append(c)
    keys = sorted(groups)[:: max(1, len(groups) // (40 if ctx.tier == "quick" else 400))]
    evaluations = 0
    nontrivial = set()
    samples = []
    threads = 16
    for (gid, rule) in keys:
        cs = groups[(gid, rule)][:24]
        exe = st["exes"][gid]
        req = "mt\t%s\t%s\t%d\t%s" % (gid, rule.encode().hex(), threads, ",".join(c.inp.encode().hex() for c in cs))
        res = genrun.pipe_resilient(exe, [req], per_line_timeout=120)[0]
        if res in ("CRASH", "TIMEOUT"):
            out.violation("c20:crash:%s:%s" % (gid, rule), "multi-threaded run did not complete: %s" % res, {"grammar": cs[0].g.text})
            continue
        parts = res.split(",")
        for c, p in zip(cs, parts):
            evaluations += threads * 3
            n, h = p.split(":", 1)
            got = stream.parse_impl(bytes.fromhex(h).decode("utf-8", "replace"))
            same = (n == "1") and stream.same_result(got, c.impl)
            if not same:
                out.violation("c20:%s:%s:%s" % (gid, rule, c.inp.encode().hex()),
                              "concurrent parses of %r disagree with each other or with the sequential run (%s distinct results)" % (c.inp, n),
                              common.case_payload(c, st, concurrent=got))
            if c.impl.get("trace") and ("I:0" in c.impl["trace"] or "I:2" in c.impl["trace"]):
                nontrivial.add((gid, rule, c.inp))
        if len(samples) < 3:
            samples.append({"grammar": cs[0].g.text.split("\n")[0][:140], "rule": rule, "inputs": [c.inp for c in cs[:4]], "threads": threads})
    # history independence on look-alike inputs: for every kind of grammar (not only the memoized ones), an input x
    # and variants of x whose characters are other characters with the same low bits (c + 0x100, c + 0x400,
    # c + 0x10000: what a table indexed by a truncated code point, a hash of the first byte ... would confuse),
    # parsed in ONE process in the orders [x, x', x] and [x', x, x'], must each give what a process that parsed
    # nothing else gives
    def aliases(x):
        vs = []
        for off in (0x100, 0x400, 0x10000):
            y = "".join(chr(ord(ch) + off) if 0x21 <= ord(ch) < 0x7f else ch for ch in x)
            if y != x:
                vs.append(y)
        if vs and len(x) > 1:
            k = next(i for i, ch in enumerate(x) if 0x21 <= ord(ch) < 0x7f)
            vs.append(x[:k] + chr(ord(x[k]) + 0x100) + x[k + 1:])
        return vs
    allg = collections.defaultdict(list)
    for c in st["cases"]:
        if c.g.gid not in hang and c.impl["k"] in ("OK", "ERR") and 0 < len(c.inp) <= 40:
            allg[(c.g.gid, c.rule)].append(c)
    akeys = sorted(allg)[:: max(1, len(allg) // (60 if ctx.tier == "quick" else 600))]
    alias_runs = 0
    alias_pairs = 0
    for (gid, rule) in akeys:
        exe = st["exes"][gid]
        cs = sorted(allg[(gid, rule)], key=lambda c: (c.impl["k"] != "OK", len(c.inp)))[:2]
        for c in cs:
            for y in aliases(c.inp)[: (2 if ctx.tier == "quick" else 4)]:
                line = lambda t: "parse\t%s\t%s\t%s\trec" % (gid, rule.encode().hex(), t.encode().hex())
                fresh = {t: genrun.pipe_resilient(exe, [line(t)])[0] for t in (c.inp, y)}
                if any(r in ("CRASH", "TIMEOUT", "SKIPPED") for r in fresh.values()):
                    continue
                alias_pairs += 1
                for order in ([c.inp, y, c.inp], [y, c.inp, y]):
                    res = genrun.pipe_resilient(exe, [line(t) for t in order])
                    alias_runs += len(order)
                    evaluations += len(order)
                    for k, (t, r) in enumerate(zip(order, res)):
                        if not stream.same_result(stream.parse_impl(r), stream.parse_impl(fresh[t])):
                            out.violation("c20hist:%s:%s:%s:%d" % (gid, rule, t.encode().hex()[:48], k),
                                          "the result of parsing %r depends on the parses made before it in the process (%r parsed first)" % (t, order[:k]),
                                          {"grammar": c.g.text, "rule": rule, "input": t, "parsed_before_in_this_process": order[:k],
                                           "result_in_a_fresh_process": fresh[t][:400], "result_after_those": r[:400],
                                           "reproduce": "printf '%s\\n' | %s" % ("\\n".join(line(u).replace("\t", "\\t") for u in order[:k + 1]), exe)})
                            break
    out.coverage.update({
        "look_alike_input_pairs": alias_pairs, "parses_in_look_alike_histories": alias_runs,
        "evaluations": evaluations, "distinct_nontrivial": len(nontrivial),
        "rule": "grammars of the stream with memoized / left-recursive rules or hooks; 16 threads x 3 repetitions x permuted inputs per (grammar, rule); evaluations = parses run concurrently; non-trivial = the sequential parse of that input hit the cache or ran the left-recursion loop; distinct by (grammar, rule, input)",
        "samples": samples, "groups": len(keys),
    })
