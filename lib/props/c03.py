"""C03 — generated types follow the documented mapping and always compile.
proof: Props/C03.v (arity soundness over the specification for every grammar and
input; the lattice tables regenerated from the source are the documented join;
declaration emitters).  correspondence: the declarations the compiler model
computes == the declarations read back from the code the real generator
emitted, for every stream grammar; rustc compiles every accepted grammar
together with exact-type assertions generated from the model's declarations,
under #![forbid(unsafe_code)]."""
import collections
import re

from .. import stream, decls
from . import common

FACTS = ["ca_", "oa_", "clo_all", "seq_dup", "choice_", "file_codegen_src_", "leftrec_needs_clone", "pos_variants_checked"]

KW = set("as break const continue else enum extern false fn for if impl in let loop match mod move mut pub ref return static struct trait true type unsafe use where while async await dyn".split())


def known_rustc(g):
    """classes of rustc failures recorded as known findings -> key or None"""
    err = g.rustc_error or ""
    if "interpreted as a unit struct" in err or "E0530" in err:
        return "c03:field-named-like-unit-struct"
    if re.search(r"@string[^;]*=", g.text) and re.search(r"cannot find type `Parsed_\w+`", err):
        return "c03:string-rule-with-multi-type-field"
    if re.search(r"no method named `position` found", err) and "@position" in g.text:
        return "c03:position-enum-variant-without-position"
    if "@leftrec" in g.text and g.derives is not None and "Clone" not in g.derives and "`clone`" in err:
        return "c03:leftrec-without-clone"
    return None


def corpus(ctx):
    """committed grammars (corpus/rustc): accepted by the compiler, compiled one crate each"""
    import glob
    import os
    from .. import vp, genrun, assertgen
    front = os.path.join(vp.cargo_build("direct"), "front")
    gs = []
    for path in sorted(glob.glob(os.path.join(vp.VERIF, "corpus", "rustc", "*.ebnf"))):
        nm = os.path.basename(path)[:-5]
        dpath = path[:-5] + ".derives"
        derives = [d for d in open(dpath).read().split() if d != "NONE"] if os.path.exists(dpath) else None
        g = genrun.G("gr_" + nm, open(path, encoding="utf-8").read(), derives=derives, meta={"corpus": nm})
        gs.append(g)
    genrun.prepare(front, gs, os.path.join(vp.CACHE, "c03-corpus-src"))
    withsx = [g for g in gs if g.sexpr]
    req = ["grammar\t%s\t%s" % (g.gid, g.sexpr) for g in withsx] + \
          ["compile\t%s\t%s\t-" % (g.gid, stream.derive_arg(g)) for g in withsx]
    for g, a in zip(withsx, vp.pipe_lines(ctx.model, req)[len(withsx):]):
        g.mcompile = a
        if a.startswith("OK\t") and g.gen == "CODE":
            g.assert_code = assertgen.assertions(a.split("\t")[1])
    exes = genrun.build(gs, "c03-corpus", nshards=len(gs))
    return gs, exes


def check(out, ctx):
    st = stream.get(ctx)
    cgs, cexes = corpus(ctx)
    exes = dict(st["exes"])
    exes.update(cexes)
    gs = [g for g in st["grammars"] if g.sexpr] + [g for g in cgs if g.sexpr]
    compared = 0
    shapes = collections.Counter()
    kw_names = 0
    asserted = 0
    distinct = set()
    for g in gs:
        m = (g.mcompile or "").split("\t")
        if g.gen == "CODE":
            want = None
            if re.search(r"\bunsafe\b", g.code):
                out.violation("c03unsafe:" + g.gid, "generated code contains `unsafe`", {"grammar": g.text})
            if g.rustc_error is not None:
                key = known_rustc(g)
                what = "rustc rejects the code generated for an accepted grammar" + (" (exact-type assertion)" if "_assert.rs" in g.rustc_error else "")
                out.violation(key or ("c03rustc:" + g.gid), what + ": " + g.rustc_error.split("\n")[0][:200],
                              {"grammar": g.text, "rustc": g.rustc_error, "derives": g.derives, "model": g.mcompile})
            elif g.gid in exes and g.assert_code:
                asserted += 1
            if m[0] != "OK":
                out.broke("correspondence", "the generator accepts a grammar the compiler model rejects",
                          {"grammar": g.text, "model": g.mcompile})
                continue
            try:
                real, attrs = decls.parse_decls(g.code)
            except ValueError as e:
                out.violation("c03decl:" + g.gid, "public declarations of the generated code are not of the documented forms: %s" % e,
                              {"grammar": g.text, "head": g.code[:1500]})
                continue
            want = [decls.canon_model_decl(d) for d in m[1].split(";") if d]
            compared += 1
            distinct.add(tuple(real))
            if real != want:
                diff = [(a, b) for a, b in zip(real, want) if a != b][:3]
                out.violation("c03map:" + g.gid, "generated declarations differ from the documented mapping (computed by the model): " +
                              "; ".join("generated %s, documented %s" % (readable(a), readable(b)) for a, b in diff),
                              {"grammar": g.text, "generated": real, "model": want, "derives": g.derives, "readable": [readable(x) for x in real]})
            dv = ["Debug", "Clone"] if g.derives is None else g.derives
            for (n, d, allow) in attrs:
                if (d or []) != dv:
                    out.violation("c03derive:" + g.gid, "type %s derives %s, the settings say %s" % (n, d, dv), {"grammar": g.text})
            for d in real:
                k = d.split(":")
                shapes[k[0]] += 1
                for t in re.findall(r"=([A-Z(][^,]*)", d):
                    shapes["field_" + re.sub(r"[0-9a-f]{2,}", "", t)] += 1
                if bytes.fromhex(k[1]).decode() in KW:
                    kw_names += 1
                kw_names += sum(1 for f in re.findall(r"([0-9a-f]+)=", d) if bytes.fromhex(f).decode() in KW)
        elif g.gen == "ERROR":
            rule, cls = decls.classify_error(g.gen_msg)
            if m[0] != "ERR" or m[3] != cls:
                out.broke("correspondence", "compile error of the generator vs the compiler model",
                          {"grammar": g.text, "generator": g.gen_msg, "model": g.mcompile})
        elif g.gen in ("CRASH", "TIMEOUT"):
            if not (m[0] in ("OVERFLOW", "PANIC") or "idents=0" in (g.mcompile or "")):
                out.violation("c03crash:" + g.gid, "the generator crashed on a stream grammar: " + g.gen_msg[:200], {"grammar": g.text})
    out.coverage.update({"evaluations": compared, "distinct_nontrivial": len(distinct),
                 "rule": "every stream grammar the generator accepts: declarations read back from the emitted code vs the model's; compiled by rustc with exact-type assertions; distinct = distinct declaration lists",
                 "samples": [{"grammar": g.text[:400], "model": (g.mcompile or "")[:300]} for g in gs[:3]],
                 "extra": {"declaration_kinds_and_field_shapes": dict(shapes), "rust_keyword_names_declared": kw_names,
                        "grammars_compiled_with_exact_type_assertions": asserted,
                        "derive_sets": sorted(set(",".join(g.derives) if g.derives is not None else "default" for g in gs)),
                        "rustc_rejected": sum(1 for g in gs if g.rustc_error is not None)}})


def readable(d):
    return re.sub(r"[0-9a-f]{2,}", lambda m: bytes.fromhex(m.group(0)).decode("utf-8", "replace") if len(m.group(0)) % 2 == 0 else m.group(0), d)
