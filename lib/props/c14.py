"""C14 — check and extern functions decide matches as documented.
correspondence: the hook-invocation log (function, argument summary, order)
and the results equal the model's, also with a user context; oracle:
implementation vs extracted S with the same function library as pure oracles."""
from .. import stream
from . import common

FACTS = common.CODEGEN_FILES


def check(out, ctx):
    st = stream.get(ctx)
    cases = [c for c in st["cases"] if c.g.meta["hooks"]]
    bad = common.correspondence(out, st, cases)
    checked = 0
    for c in cases:
        if c.g.meta["ctx"] or c.spec["k"] not in ("OK", "ERR") or c.impl["k"] not in ("OK", "ERR"):
            continue
        checked += 1
        ok = c.impl["k"] == c.spec["k"] and (c.impl["k"] != "OK" or c.impl["tree"] == c.spec["tree"])
        if ok and c.impl["k"] == "ERR" and common.plain(c):
            ok = (c.impl["pos"], c.impl["spec"]) == (c.spec["pos"], c.spec["spec"])
        if not ok:
            out.violation("c14:%s:%s:%s" % (c.g.gid, c.rule, c.inp.encode().hex()),
                          "result with check/extern functions differs from the documented semantics on %r" % c.inp,
                          common.case_payload(c, st))
    common.stream_coverage(out, st, cases,
                           "cases of grammars with @check / @extern rules (with and without user context); non-trivial = at least one hook was invoked; distinct by (grammar, rule, input)",
                           lambda c: bool(c.impl.get("hlog")),
                           {"checked_against_spec": checked,
                            "with_user_context": sum(1 for c in cases if c.g.meta["ctx"]),
                            "check_failures_seen": sum(1 for c in cases if c.impl.get("spec", "").startswith("check:")),
                            "extern_failures_seen": sum(1 for c in cases if c.impl.get("spec", "").startswith("extern:")),
                            "model_vs_implementation_disagreements": bad})
