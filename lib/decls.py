"""Public type declarations of generated code, read back from the token text
the generator prints, in the notation the compiler model prints its own
(ocaml/driver.ml decl_str):
  struct:<name hex>:<position 0/1>:<field hex>=<type>,...
  unit:<name hex>      alias:<name hex>:<type>      enum:<name hex>:<variant hex>[*],...
types: N<hex> C S P<hex>.<hex> B(t) O(t) V(t)
Also: the derive lists attached to each struct/enum, and the classification of
the compiler's error messages."""
import re

TOK = re.compile(r"r#[A-Za-z_0-9]+|'[A-Za-z_][A-Za-z_0-9]*|[A-Za-z_][A-Za-z_0-9]*|[0-9]+|::|->|=>|.", re.S)


def hx(s):
    return s.encode().hex()


def tokens(code):
    return [t for t in TOK.findall(code) if not t.isspace()]


class P:
    def __init__(self, toks):
        self.t, self.i = toks, 0

    def peek(self, k=0):
        return self.t[self.i + k] if self.i + k < len(self.t) else None

    def eat(self, x=None):
        t = self.peek()
        if x is not None and t != x:
            raise ValueError("expected %r, found %r at %d: %s" % (x, t, self.i, " ".join(self.t[max(0, self.i - 8):self.i + 8])))
        self.i += 1
        return t

    def ident(self):
        t = self.eat()
        if not re.match(r"(r#)?[A-Za-z_][A-Za-z_0-9]*$", t):
            raise ValueError("identifier expected, found %r" % t)
        return t[2:] if t.startswith("r#") else t

    def typ(self):
        parts = [self.ident()]
        while self.peek() == "::":
            self.eat()
            parts.append(self.ident())
        arg = None
        if self.peek() == "<":
            self.eat("<")
            arg = self.typ()
            self.eat(">")
        if arg is not None:
            if parts == ["Box"]:
                return "B(%s)" % arg
            if parts == ["Option"]:
                return "O(%s)" % arg
            if parts == ["Vec"]:
                return "V(%s)" % arg
            if parts == ["std", "ops", "Range"] and arg == "N" + hx("usize"):
                return "RANGE"
            raise ValueError("unexpected generic type %r" % parts)
        if len(parts) == 1:
            if parts[0] == "char":
                return "C"
            if parts[0] == "String":
                return "S"
            return "N" + hx(parts[0])
        return "P" + ".".join(hx(p) for p in parts)

    def attrs(self):
        """# [derive (A , B ,)]  /  # [allow (non_camel_case_types)]"""
        out = {"derive": None, "allow": []}
        while self.peek() == "#":
            self.eat("#")
            self.eat("[")
            kind = self.ident()
            self.eat("(")
            names = []
            while self.peek() != ")":
                names.append(self.ident())
                if self.peek() == ",":
                    self.eat(",")
            self.eat(")")
            self.eat("]")
            if kind == "derive":
                out["derive"] = names
            else:
                out["allow"] += names
        return out


def canon_model_type(t):
    """the model prints a rule type named String / a one-part path as it is; the token text cannot tell them apart"""
    t = t.replace("N" + hx("String"), "S")
    t = re.sub(r"P([0-9a-f]+)(?![0-9a-f.])", lambda m: "S" if m.group(1) == hx("String") else ("C" if m.group(1) == hx("char") else "N" + m.group(1)), t)
    return t


def canon_model_decl(d):
    k = d.split(":")
    if k[0] == "struct":
        return "%s:%s:%s:%s" % (k[0], k[1], k[2], ",".join(f.split("=")[0] + "=" + canon_model_type(f.split("=")[1]) for f in k[3].split(",") if f))
    if k[0] == "alias":
        return "alias:%s:%s" % (k[1], canon_model_type(k[2]))
    return d


def parse_decls(code):
    """-> (list of decl strings, list of (decl name, derive list or None, allow list))"""
    p = P(tokens(code))
    out, attrs_out = [], []
    while True:
        save = p.i
        a = p.attrs()
        if p.peek() != "pub":
            p.i = save
            break
        p.eat("pub")
        kind = p.eat()
        if kind == "type":
            n = p.ident()
            p.eat("=")
            t = p.typ()
            p.eat(";")
            out.append("alias:%s:%s" % (hx(n), t))
        elif kind == "struct":
            n = p.ident()
            if p.peek() == ";":
                p.eat(";")
                out.append("unit:" + hx(n))
            else:
                p.eat("{")
                fs, pos = [], False
                while p.peek() != "}":
                    p.eat("pub")
                    f = p.ident()
                    p.eat(":")
                    t = p.typ()
                    if p.peek() == ",":
                        p.eat(",")
                    if f == "position" and t == "RANGE":
                        pos = True
                    else:
                        if pos:
                            raise ValueError("field after position")
                        fs.append("%s=%s" % (hx(f), t))
                p.eat("}")
                out.append("struct:%s:%d:%s" % (hx(n), 1 if pos else 0, ",".join(fs)))
            attrs_out.append((n, a["derive"], a["allow"]))
        elif kind == "enum":
            n = p.ident()
            p.eat("{")
            vs = []
            while p.peek() != "}":
                v = p.ident()
                p.eat("(")
                t = p.typ()
                p.eat(")")
                if p.peek() == ",":
                    p.eat(",")
                if t == "N" + hx(v) or (v == "String" and t == "S") or (v == "char" and t == "C"):
                    vs.append(hx(v))
                elif t in ("B(N%s)" % hx(v), "B(S)" if v == "String" else "-", "B(C)" if v == "char" else "-"):
                    vs.append(hx(v) + "*")
                else:
                    raise ValueError("enum variant %s holds %s" % (v, t))
            p.eat("}")
            out.append("enum:%s:%s" % (hx(n), ",".join(vs)))
            attrs_out.append((n, a["derive"], a["allow"]))
        else:
            raise ValueError("unexpected item kind %r" % kind)
    rest = p.peek()
    if rest not in ("impl", "#", None):
        raise ValueError("declarations end at unexpected token %r" % rest)
    return out, attrs_out


ERR_CLASSES = [
    (r"The body of negative lookaheads should not contain named fields", "neg-lookahead-fields"),
    (r"The body of positive lookaheads should not contain named fields", "pos-lookahead-fields"),
    (r"Could not find normal \(not char or extern\) rule named (\w+)", lambda m: "include-not-found:" + hx(m.group(1))),
    (r"@string rules cannot be @export-ed", "string-export"),
    (r"The 'Whitespace' rule \(and all called rules\) must be @no_skip_ws", "whitespace-skips"),
    (r"can only be used if 'Clone' is in the derives set", "memoize-no-clone"),
    (r"All variants of a @position enum rule have to be marked with @position \((\w+) is not\)", lambda m: "position-variant:" + hx(m.group(1))),
    (r"Invalid utf-8 codepoint (0x[0-9a-f]+)", lambda m: "invalid-codepoint:%d" % int(m.group(1), 16)),
    (r"Case insensitive matching only works for ascii strings", "non-ascii-insensitive"),
    (r"rules cannot be @export-ed\. Try the > operator", "override-export"),
    (r"rules cannot contain @position\. Try the > operator", "override-position"),
    (r"Enum '@:' fields have to be used exactly once", "enum-override-arity"),
    (r"Mixing simple and override fields is not allowed", "mix-override"),
    (r"(?:Rule name|Field name|Field type|Path segment|Derive path segment) '((?:.|\n)*)' is not a valid Rust identifier", lambda m: "bad-ident:" + hx(m.group(1))),
    (r"Rules include each other in a cycle", "include-cycle"),
]


def classify_error(msg):
    """-> (rule name or None, class)"""
    m = re.match(r"Error processing (?:@char |@extern )?rule (\w+): (.*)", msg, re.S)
    rule, rest = (m.group(1), m.group(2)) if m else (None, msg)
    for pat, cls in ERR_CLASSES:
        mm = re.search(pat, rest)
        if mm:
            return rule, (cls(mm) if callable(cls) else cls)
    return rule, "unclassified:" + rest[:120]
