"""Canonical trees: from Rust's derive(Debug) rendering of a generated type and
from the model driver's s-expression, into the same Python structure."""


class DebugParseError(Exception):
    pass


def parse_debug(s):
    pos = 0
    n = len(s)

    def ws():
        nonlocal pos
        while pos < n and s[pos] in " \n\t":
            pos += 1

    def esc():
        # after a backslash
        nonlocal pos
        c = s[pos]
        pos += 1
        if c == "n":
            return "\n"
        if c == "r":
            return "\r"
        if c == "t":
            return "\t"
        if c == "0":
            return "\0"
        if c in "\\'\"":
            return c
        if c == "u":
            if s[pos] != "{":
                raise DebugParseError("bad \\u")
            j = s.index("}", pos)
            v = int(s[pos + 1:j], 16)
            pos = j + 1
            return chr(v)
        if c == "x":
            v = int(s[pos:pos + 2], 16)
            pos += 2
            return chr(v)
        raise DebugParseError("bad escape \\" + c)

    def value():
        nonlocal pos
        ws()
        if pos >= n:
            raise DebugParseError("eof")
        c = s[pos]
        if c == '"':
            pos += 1
            out = []
            while s[pos] != '"':
                if s[pos] == "\\":
                    pos += 1
                    out.append(esc())
                else:
                    out.append(s[pos])
                    pos += 1
            pos += 1
            return ("str", "".join(out).encode("utf-8"))
        if c == "'":
            pos += 1
            if s[pos] == "\\":
                pos += 1
                ch = esc()
            else:
                ch = s[pos]
                pos += 1
            if s[pos] != "'":
                raise DebugParseError("char")
            pos += 1
            return ("char", ord(ch))
        if c == "[":
            pos += 1
            items = []
            ws()
            while s[pos] != "]":
                items.append(value())
                ws()
                if s[pos] == ",":
                    pos += 1
                    ws()
            pos += 1
            return ("list", items)
        if c == "(":
            pos += 1
            ws()
            if s[pos] == ")":
                pos += 1
                return ("unit",)
            raise DebugParseError("tuple")
        if c.isdigit():
            j = pos
            while j < n and s[j].isdigit():
                j += 1
            a = int(s[pos:j])
            pos = j
            if s.startswith("..", pos):
                pos += 2
                j = pos
                while j < n and s[j].isdigit():
                    j += 1
                b = int(s[pos:j])
                pos = j
                return ("range", a, b)
            return ("num", a)
        if c.isalpha() or c == "_":
            j = pos
            while j < n and (s[j].isalnum() or s[j] == "_" or s[j] == "#"):
                j += 1
            name = s[pos:j]
            if name.startswith("r#"):
                name = name[2:]
            pos = j
            ws()
            if pos < n and s[pos] == "(":
                pos += 1
                v = value()
                ws()
                if s[pos] == ",":
                    pos += 1
                    ws()
                if s[pos] != ")":
                    raise DebugParseError("variant arity")
                pos += 1
                if name == "Some":
                    return ("some", v)
                return ("enum", name, v)
            if pos < n and s[pos] == "{":
                pos += 1
                fields = []
                ws()
                while s[pos] != "}":
                    j = pos
                    while s[j] != ":":
                        j += 1
                    fname = s[pos:j].strip()
                    if fname.startswith("r#"):
                        fname = fname[2:]
                    pos = j + 1
                    fields.append((fname, value()))
                    ws()
                    if s[pos] == ",":
                        pos += 1
                        ws()
                pos += 1
                return ("struct", name, fields)
            if name == "None":
                return ("none",)
            return ("struct", name, [])
        raise DebugParseError("unexpected %r at %d" % (c, pos))

    v = value()
    ws()
    if pos != n:
        raise DebugParseError("trailing " + s[pos:pos + 20])
    return v


def parse_sexp(s):
    pos = 0
    n = len(s)

    def item():
        nonlocal pos
        while pos < n and s[pos] == " ":
            pos += 1
        if s[pos] == "(":
            pos += 1
            items = []
            while True:
                while pos < n and s[pos] == " ":
                    pos += 1
                if s[pos] == ")":
                    pos += 1
                    return items
                items.append(item())
        j = pos
        while j < n and s[j] not in " ()":
            j += 1
        a = s[pos:j]
        pos = j
        return a

    return item()


def model_value(sx):
    """tree from the model driver's value s-expression"""
    if sx == []:
        return ("unit",)
    if sx == "none":
        return ("none",)
    h = sx[0]
    if h == "c":
        return ("char", int(sx[1]))
    if h == "s":
        return ("str", bytes.fromhex(sx[1]) if len(sx) > 1 else b"")
    if h == "n":
        return ("num", int(sx[1]))
    if h == "some":
        return ("some", model_value(sx[1]))
    if h == "list":
        return ("list", [model_value(x) for x in sx[1:]])
    if h == "enum":
        return ("enum", bytes.fromhex(sx[1]).decode(), model_value(sx[2]))
    if h == "struct":
        name = bytes.fromhex(sx[1]).decode()
        fields = []
        for f in sx[2:]:
            if f[0] == "f":
                fields.append((bytes.fromhex(f[1]).decode(), model_value(f[2])))
            elif f[0] == "pos":
                fields.append(("position", ("range", int(f[1]), int(f[2]))))
        return ("struct", name, fields)
    raise ValueError("bad model value %r" % (sx,))


def model_value_str(s):
    if s == "()":
        return ("unit",)
    return model_value(parse_sexp(s))
