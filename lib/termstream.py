"""Exhaustive small-scope drive of the runtime matchers (builtin_parsers.rs)
through the public API: all strings of <= k characters over an alphabet with
1-, 2-, 3- and 4-byte characters, case pairs, bytes differing in bit 0x20, and
pairs such as U+00E9 / U+9000 (UTF-8 E9 80 80) whose truncation to u8 collides
with the first byte of a longer sequence; x all parameters from the same
alphabet.  Implementation vs extracted model vs the character-level meaning
computed here."""
import itertools

from . import vp

ALPHA = ["a", "A", "z", "{", "[", "_", "0", "\x10", " ", "\t", "é", "É", "退", "ß", "😀", "\x0b"]
ASCII = [c for c in ALPHA if ord(c) < 128]
# a second, small alphabet: ASCII letters together with the non-ASCII characters whose Unicode case mappings land
# on them (U+212A KELVIN SIGN lowercases to k, U+0130 to i + combining dot, U+017F LONG S uppercases to S) - what
# an "ASCII case-insensitive" matcher must NOT fold
ALPHA2 = ["k", "K", "\u212a", "i", "I", "\u0130", "\u0131", "s", "S", "\u017f", "a"]


def lower(c):
    return c.lower() if "A" <= c <= "Z" else c


def spec(kind, p1, p2, s):
    """(consumed chars, value) or None, on the character level"""
    if kind == "char":
        return (1, ord(s[0])) if s else None
    if kind == "ws":
        n = 0
        while n < len(s) and s[n] in " \t\n\x0c\r":
            n += 1
        return (n, None)
    if kind == "eoi":
        return (0, None) if not s else None
    if kind == "lit":
        return (len(p1), None) if s.startswith(p1) else None
    if kind == "ilit":
        t = s[:len(p1)]
        return (len(p1), None) if len(t) == len(p1) and "".join(lower(c) for c in t) == p1 else None
    if kind == "clit":
        return (1, ord(p1)) if s[:1] == p1 else None
    if kind == "iclit":
        return (1, ord(p1)) if s[:1] and lower(s[0]) == p1 else None
    if kind == "range":
        return (1, ord(s[0])) if s[:1] and p1 <= s[0] <= p2 else None
    raise ValueError(kind)


ERRSPEC = {
    "char": lambda p1, p2: "any", "eoi": lambda p1, p2: "eoi",
    "lit": lambda p1, p2: "str:" + p1.encode().hex(), "ilit": lambda p1, p2: "str:" + p1.encode().hex(),
    "clit": lambda p1, p2: "char:%d" % ord(p1), "iclit": lambda p1, p2: "char:%d" % ord(p1),
    "range": lambda p1, p2: "range:%d:%d" % (ord(p1), ord(p2)),
}


def params(tier, ALPHA=ALPHA):
    ASCII = [c for c in ALPHA if ord(c) < 128]
    ps = [("char", None, None), ("ws", None, None), ("eoi", None, None)]
    for c in ALPHA:
        ps.append(("clit", c, None))
    for c in ASCII:
        if lower(c) == c:
            ps.append(("iclit", c, None))
    for a in ALPHA:
        for b in ALPHA:
            if a <= b:
                ps.append(("range", a, b))
    lits = [""] + ALPHA + [a + b for a in ALPHA for b in ALPHA][:: (1 if tier == "thorough" else 5)]
    for l in lits:
        if len(l) != 1:
            ps.append(("lit", l, None))
    ilits = [a + b for a in ASCII for b in ASCII if lower(a) == a and lower(b) == b][:: (1 if tier == "thorough" else 3)]
    for l in ilits:
        ps.append(("ilit", l, None))
    return ps


def inputs(tier, ALPHA=ALPHA):
    k = 2 if tier == "quick" else 3
    out = []
    for n in range(k + 1):
        for t in itertools.product(ALPHA, repeat=n):
            out.append("".join(t))
    return out


def enc(kind, p):
    if p is None:
        return "-"
    if kind in ("lit", "ilit"):
        return p.encode().hex() if p else ""
    return str(ord(p))


def run(ctx, out, pid):
    ps, ins = params(ctx.tier), inputs(ctx.tier)
    reqs, meta = [], []
    for (kind, p1, p2) in ps:
        for s in ins:
            reqs.append("term\t%s\t%s\t%s\t%s" % (kind, enc(kind, p1), enc(kind, p2), s.encode().hex()))
            meta.append((kind, p1, p2, s))
    # the case-confusable alphabet
    ps2, ins2 = params("thorough", ALPHA2), inputs("quick", ALPHA2)
    for (kind, p1, p2) in ps2:
        for s in ins2:
            reqs.append("term\t%s\t%s\t%s\t%s" % (kind, enc(kind, p1), enc(kind, p2), s.encode().hex()))
            meta.append((kind, p1, p2, s))
    impl = vp.pipe_lines(ctx.direct, reqs)
    model = vp.pipe_lines(ctx.model, reqs)
    disagree = 0
    viol = 0
    nontrivial = 0
    panics = 0
    for (kind, p1, p2, s), a, b, rq in zip(meta, impl, model, reqs):
        if a != b:
            disagree += 1
            if disagree <= 3:
                out.broke("correspondence", "runtime matcher %s vs Terminals.v" % kind,
                          {"request": rq, "implementation": a, "model": b})
        want = spec(kind, p1, p2, s)
        if want is None:
            exp = "ERR\t0\t" + ERRSPEC[kind](p1, p2)
        else:
            nbytes = len(s[:want[0]].encode("utf-8"))
            exp = "OK\t%d\t%s" % (nbytes, "-" if want[1] is None or kind in ("lit", "ilit", "ws", "eoi") else str(want[1]))
            if want[0] > 0 and any(ord(c) > 127 for c in s):
                nontrivial += 1
        if a == "PANIC":
            panics += 1
        if a != exp:
            viol += 1
            if viol <= 40:
                out.violation("term:%s:%s:%s:%s" % (kind, enc(kind, p1), enc(kind, p2), s.encode().hex()),
                              "matcher %s(%r,%r) on %r: got %r, the syntax reference requires %r" % (kind, p1, p2, s, a, exp),
                              {"request": rq, "observed": a, "expected": exp,
                               "reproduce": "printf '%s\\n' | %s" % (rq.replace("\t", "\\t"), ctx.direct)})
    return {"terminal_cases": len(reqs), "terminal_params": len(ps), "terminal_inputs": len(ins),
            "terminal_nontrivial": nontrivial, "terminal_panics": panics,
            "terminal_model_disagreements": disagree, "terminal_exhaustive_over": "all strings of <= %d chars over %d-char alphabet, and all strings of <= 2 chars over the %d-char case-confusable alphabet (k K U+212A i I U+0130 U+0131 s S U+017F a)" % (2 if ctx.tier == "quick" else 3, len(ALPHA), len(ALPHA2))}
