"""Shared machinery of the /verif checks (see DESIGN.md section 5).

Stages: facts (translator -> Extracted.v), proof (make Props/<id>.vo,
Print Assumptions, hygiene), implementation build (cargo, hooks on), model
build (extraction + ocamlopt), correspondence and oracle runs (per property),
decision, evidence.
"""
import hashlib
import json
import os
import re
import subprocess
import sys
import time

VERIF = os.path.dirname(os.path.dirname(os.path.abspath(__file__)))
REPO = os.environ.get("VP_REPO", "/repo")
CACHE = os.path.join(VERIF, ".cache")
COQ = os.path.join(VERIF, "coq")
THEORIES = os.path.join(COQ, "theories")
REPLAYS = os.path.join(VERIF, "replays")
EVIDENCE = os.path.join(VERIF, "evidence")
TARGET = os.path.join(CACHE, "target")
OCAML_BUILD = os.path.join(CACHE, "ocaml")
GUARD = "peginator_verif"

os.makedirs(CACHE, exist_ok=True)
os.makedirs(REPLAYS, exist_ok=True)
os.makedirs(EVIDENCE, exist_ok=True)


def log(*a):
    print("[vp]", *a, file=sys.stderr, flush=True)


def run(cmd, timeout=3600, cwd=None, env=None, input=None, check=False):
    e = dict(os.environ)
    e.setdefault("CARGO_NET_OFFLINE", "true")
    e["NO_COLOR"] = "1"
    if env:
        e.update(env)
    p = subprocess.run(cmd, cwd=cwd, env=e, input=input, stdout=subprocess.PIPE,
                       stderr=subprocess.STDOUT, timeout=timeout,
                       shell=isinstance(cmd, str), text=True, errors="replace")
    if check and p.returncode != 0:
        raise RuntimeError("command failed (%s): %s\n%s" % (p.returncode, cmd, p.stdout[-4000:]))
    return p.returncode, p.stdout


# --------------------------------------------------------------------------
# repository fingerprint (cache key): every source file outside target/

def repo_files():
    out = subprocess.run(["git", "-C", REPO, "ls-files", "-co", "--exclude-standard"],
                         stdout=subprocess.PIPE, text=True).stdout.split("\n")
    return sorted(f for f in out if f and not f.startswith("target/"))


_repo_hash = None


def repo_hash():
    global _repo_hash
    if _repo_hash is None:
        h = hashlib.sha256()
        for f in repo_files():
            p = os.path.join(REPO, f)
            if os.path.isfile(p):
                h.update(f.encode())
                with open(p, "rb") as fh:
                    h.update(hashlib.sha256(fh.read()).digest())
        _repo_hash = h.hexdigest()[:16]
    return _repo_hash


def verif_hash(paths):
    h = hashlib.sha256()
    for root in paths:
        root = os.path.join(VERIF, root)
        if os.path.isfile(root):
            files = [root]
        else:
            files = []
            for d, _, fs in os.walk(root):
                for f in fs:
                    if f.endswith((".py", ".v", ".ml", ".rs", ".toml", ".json", ".ebnf", ".txt", ".inputs", ".derives", ".tmpl", ".long", ".inlined")):
                        files.append(os.path.join(d, f))
        for f in sorted(files):
            h.update(f.encode())
            with open(f, "rb") as fh:
                h.update(fh.read())
    return h.hexdigest()[:16]


# --------------------------------------------------------------------------
# stage: facts

def stage_facts():
    """Regenerate coq/theories/Extracted.v from /repo's current sources.
    Returns (ok, broken) where broken lists the facts whose source pattern was
    not recognised (fail-closed)."""
    sys.path.insert(0, os.path.join(VERIF, "tools"))
    import extract_facts
    text, broken = extract_facts.render(REPO)
    path = os.path.join(THEORIES, "Extracted.v")
    old = open(path).read() if os.path.exists(path) else None
    if old != text:
        with open(path, "w") as f:
            f.write(text)
    broken = list(broken) + stage_grammar_ebnf()
    return (not broken), broken


def stage_grammar_ebnf():
    """coq/theories/GrammarEbnf.v: the AST of /repo/grammar.ebnf as read by the real
    (shipped) front end, regenerated on every run."""
    import sexp2coq
    front = os.path.join(TARGET, "debug", "front")
    path = os.path.join(THEORIES, "GrammarEbnf.v")
    broken = []
    try:
        out = subprocess.run([front, "dump", os.path.join(REPO, "grammar.ebnf")], stdout=subprocess.PIPE,
                             text=True, timeout=60).stdout.strip()
        if not out.startswith("(grammar"):
            raise RuntimeError(out[:200])
        text = sexp2coq.module([("g", out)], "AST of /repo/grammar.ebnf dumped through the shipped front end")
    except Exception as e:  # the front end does not read its own grammar any more
        text = ("(* GENERATED. grammar.ebnf could not be dumped: %s *)\nFrom PegV Require Import Syntax.\n"
                "Inductive unrecognised_grammar := UnrecognisedGrammar.\nDefinition g : unrecognised_grammar := UnrecognisedGrammar.\n"
                % str(e).replace("*)", "* )"))
        broken.append(("grammar_ebnf", "the front end did not dump /repo/grammar.ebnf: %s" % e))
    old = open(path).read() if os.path.exists(path) else None
    if old != text:
        with open(path, "w") as f:
            f.write(text)
    return broken


# --------------------------------------------------------------------------
# stage: proof

HYGIENE_RE = re.compile(r"\b(Admitted|admit|Axiom|Parameter|Conjecture|Hypothesis|Variable)\b|Unset Guard|bypass_check|type-in-type|impredicative-set|Admit Obligations")


def hygiene():
    """No Admitted/admit/Axiom/... anywhere in the development (Variables and
    Hypotheses are allowed inside Sections only)."""
    bad = []
    for d, _, fs in os.walk(THEORIES):
        for f in fs:
            if not f.endswith(".v"):
                continue
            depth = 0
            incomment = 0
            for n, line in enumerate(open(os.path.join(d, f)), 1):
                # strip comments (nesting-aware, line granularity is enough here)
                s = ""
                i = 0
                while i < len(line):
                    if line.startswith("(*", i):
                        incomment += 1
                        i += 2
                    elif line.startswith("*)", i) and incomment:
                        incomment -= 1
                        i += 2
                    else:
                        if not incomment:
                            s += line[i]
                        i += 1
                if re.match(r"\s*Section\b", s):
                    depth += 1
                if re.match(r"\s*End\b", s) and depth:
                    depth -= 1
                for m in HYGIENE_RE.finditer(s):
                    w = m.group(0)
                    if w in ("Variable", "Hypothesis") and depth > 0:
                        continue
                    if w in ("Variable", "Hypothesis") and not re.match(r"\s*(Variable|Hypothesis)s?\b", s):
                        continue
                    bad.append("%s:%d: %s" % (os.path.relpath(os.path.join(d, f), VERIF), n, s.strip()))
    return bad


def coq_makefile():
    mk = os.path.join(COQ, "Makefile")
    cp = os.path.join(COQ, "_CoqProject")
    if not os.path.exists(mk) or os.path.getmtime(mk) < os.path.getmtime(cp):
        run(["coq_makefile", "-f", "_CoqProject", "-o", "Makefile"], cwd=COQ, check=True)


ALLOWED_AXIOMS = set()  # the development is axiom-free; anything printed is reported


def stage_proof(pid, timeout=1500):
    """Build Props/<pid>.vo (and what it depends on) with the regenerated
    Extracted.v.  Returns dict(ok, log, assumptions, theorems)."""
    coq_makefile()
    target = "theories/Props/%s.vo" % pid
    src = os.path.join(COQ, "theories/Props/%s.v" % pid)
    res = {"ok": False, "log": "", "assumptions": [], "theorems": [], "target": target}
    if not os.path.exists(src):
        res["log"] = "no property file " + src
        return res
    # force the property file itself to be re-checked so that its output
    # (Print Assumptions) is captured on this run
    try:
        os.remove(os.path.join(COQ, target))
    except FileNotFoundError:
        pass
    rc, out = run("timeout %d make -j16 %s" % (timeout, target), cwd=COQ, timeout=timeout + 60)
    res["log"] = out[-6000:]
    text = open(src).read()
    res["theorems"] = re.findall(r"^\s*(?:Theorem|Corollary)\s+(\w+)", text, re.M)
    if rc != 0:
        return res
    # Print Assumptions output: "Closed under the global context" or "Axioms:" + list
    closed = out.count("Closed under the global context")
    axioms = []
    for m in re.finditer(r"Axioms:\n((?:.+\n)+?)(?=\S|\Z)", out):
        axioms.append(m.group(1).strip())
    res["assumptions"] = axioms
    res["closed"] = closed
    res["n_print"] = len(re.findall(r"^\s*Print Assumptions", text, re.M))
    res["ok"] = (not axioms) and closed >= res["n_print"] and res["n_print"] >= 1
    if not res["ok"]:
        res["log"] += "\n[assumption check] closed=%d expected=%d axioms=%r" % (closed, res["n_print"], axioms)
    return res


def stage_coqchk(pid, timeout=1800):
    """thorough tier: the independent checker re-checks Props/<pid>.vo and everything it depends on;
    its context summary must list no axiom, no type-in-type, no unsafe fixpoint, no assumed positivity."""
    rc, out = run("timeout %d coqchk -o -silent -Q theories PegV PegV.Props.%s" % (timeout, pid), cwd=COQ, timeout=timeout + 60)
    summary = out[out.find("CONTEXT SUMMARY"):] if "CONTEXT SUMMARY" in out else out[-2000:]
    want = ["* Axioms: <none>", "relying on type-in-type: <none>", "relying on unsafe (co)fixpoints: <none>", "whose positivity is assumed: <none>"]
    ok = rc == 0 and all(w in summary for w in want)
    return {"ok": ok, "summary": summary[-1500:]}


# --------------------------------------------------------------------------
# stage: implementation build (harness crates against /repo, hooks on)

def cargo_build(crate, bins=None, profile="dev", timeout=1800):
    cdir = os.path.join(VERIF, "harness", crate)
    lock = os.path.join(cdir, "Cargo.lock")
    src = os.path.join(REPO, "Cargo.lock")
    if os.path.exists(src):
        data = open(src).read()
        if not os.path.exists(lock):
            open(lock, "w").write(data)
    cmd = ["cargo", "build", "--offline", "-q"]
    if profile == "release":
        cmd.append("--release")
    env = {"CARGO_TARGET_DIR": TARGET, "RUSTFLAGS": "--cfg %s -Awarnings" % GUARD}
    rc, out = run(cmd, cwd=cdir, env=env, timeout=timeout)
    if rc != 0:
        raise RuntimeError("cargo build of harness/%s failed:\n%s" % (crate, out[-6000:]))
    sub = "release" if profile == "release" else "debug"
    return os.path.join(TARGET, sub)


# --------------------------------------------------------------------------
# stage: model build (extraction + ocamlopt)

def model_build(timeout=900):
    os.makedirs(OCAML_BUILD, exist_ok=True)
    coq_makefile()
    key = verif_hash(["coq/theories", "ocaml"])
    stamp = os.path.join(OCAML_BUILD, "stamp")
    exe = os.path.join(OCAML_BUILD, "vp-model")
    if os.path.exists(stamp) and open(stamp).read() == key and os.path.exists(exe):
        return exe
    # the modules the extraction needs
    need = re.findall(r"^From PegV Require Import (.*)\.", open(os.path.join(VERIF, "ocaml/Extract.v")).read(), re.M)
    mods = sorted(set(" ".join(need).split()))
    targets = " ".join("theories/%s.vo" % m for m in mods)
    rc, out = run("timeout %d make -j16 %s" % (timeout, targets), cwd=COQ, timeout=timeout + 60)
    if rc != 0:
        raise RuntimeError("model does not build:\n" + out[-4000:])
    for f in os.listdir(os.path.join(VERIF, "ocaml")):
        if f.endswith(".ml"):
            open(os.path.join(OCAML_BUILD, f), "w").write(open(os.path.join(VERIF, "ocaml", f)).read())
    run(["coqc", "-Q", THEORIES, "PegV", os.path.join(VERIF, "ocaml/Extract.v"), "-o",
         os.path.join(OCAML_BUILD, "Extract.vo")], cwd=OCAML_BUILD, check=True, timeout=timeout)
    run("ocamlfind ocamlopt -w -a -package str -linkpkg model.mli model.ml conv.ml sexp.ml driver.ml -o vp-model",
        cwd=OCAML_BUILD, check=True, timeout=timeout)
    open(stamp, "w").write(key)
    return exe


def model_hash():
    """hash of the extracted model's OCaml source (what the correspondence actually runs): theorem files that
    the extraction does not depend on do not change it"""
    model_build()
    h = hashlib.sha256()
    for f in ("model.ml", "model.mli"):
        with open(os.path.join(OCAML_BUILD, f), "rb") as fh:
            h.update(fh.read())
    return h.hexdigest()[:16]


def pipe_lines(exe, lines, timeout=3600, env=None, mem_gb=None):
    """Feed request lines to a driver, return response lines."""
    data = "\n".join(lines) + "\n"
    e = dict(os.environ)
    e["NO_COLOR"] = "1"
    if env:
        e.update(env)
    def big_stack():
        import resource
        try:
            soft, hard = resource.getrlimit(resource.RLIMIT_STACK)
            resource.setrlimit(resource.RLIMIT_STACK, (hard, hard))
            if mem_gb:
                resource.setrlimit(resource.RLIMIT_AS, (mem_gb << 30, mem_gb << 30))
        except Exception:
            pass
    p = subprocess.run([exe], input=data, stdout=subprocess.PIPE, stderr=subprocess.PIPE,
                       text=True, timeout=timeout, env=e, errors="replace", preexec_fn=big_stack)
    out = p.stdout.split("\n")
    if out and out[-1] == "":
        out.pop()
    if len(out) != len(lines):
        raise RuntimeError("%s answered %d lines for %d requests (rc=%s)\n%s" %
                           (exe, len(out), len(lines), p.returncode, p.stderr[-2000:]))
    return out


# --------------------------------------------------------------------------
# known findings, replays, evidence, decision

def known_findings():
    p = os.path.join(VERIF, "known_findings.json")
    if not os.path.exists(p):
        return []
    return json.load(open(p)).get("findings", [])


def write_replay(pid, name, payload):
    path = os.path.join(REPLAYS, "%s-%s.json" % (pid, name))
    with open(path, "w") as f:
        json.dump(payload, f, indent=1, ensure_ascii=False, default=repr)
    return path


class Outcome:
    """Collected by a property check; turned into exit status + evidence."""

    def __init__(self, pid, tier, seed):
        self.pid, self.tier, self.seed = pid, tier, seed
        self.t0 = time.time()
        self.violations = []      # impl-level oracle failures: dict(key, what, replay payload)
        self.broken = []          # proof / facts / correspondence that no longer checks: dict(kind, name, detail)
        self.coverage = {}
        self.assumptions = []
        self.level = "proof"
        self.obligations = []
        self.discharged = 0

    def violation(self, key, what, payload):
        self.violations.append({"key": key, "what": what, "payload": payload})

    def broke(self, kind, name, detail):
        self.broken.append({"kind": kind, "name": name, "detail": detail})

    def finish(self):
        known = [k for k in known_findings() if k.get("property") == self.pid and k.get("status", "open") == "open"]
        known_keys = {k["key"]: k for k in known}
        lines = []
        fail = False
        reported = set()
        seen_known = set()
        for v in self.violations:
            if v["key"] in known_keys:
                if v["key"] not in seen_known:
                    seen_known.add(v["key"])
                    lines.append("KNOWN-FINDING: property=%s %s" % (self.pid, known_keys[v["key"]]["what"]))
                continue
            if v["key"] in reported:
                continue
            reported.add(v["key"])
            fail = True
            payload = dict(v["payload"])
            payload.update({"property": self.pid, "what": v["what"], "key": v["key"]})
            path = write_replay(self.pid, hashlib.sha1(v["key"].encode()).hexdigest()[:10], payload)
            lines.append("VIOLATION property=%s replay=%s" % (self.pid, path))
            if len(reported) >= 5:
                break
        # something no longer checks, and no concrete (unlisted) failing input was found
        if self.broken and not fail:
            # broken obligations that are explained by a known finding are not re-raised
            unexplained = [b for b in self.broken if not b.get("explained_by_known")]
            if unexplained:
                fail = True
                path = write_replay(self.pid, "unproved", {
                    "property": self.pid,
                    "no_longer_checks": unexplained,
                    "note": "The property is no longer shown to hold: the named theorem / extracted fact / "
                            "correspondence does not check against the current source. The search over the "
                            "model and the implementation found no concrete failing input.",
                })
                lines.append("VIOLATION property=%s replay=%s no-failing-input-found" % (self.pid, path))
        elif self.broken and fail:
            for b in self.broken:
                log("also no longer checks:", b["kind"], b["name"])
        wall = time.time() - self.t0
        cov = dict(self.coverage)
        cov.setdefault("obligations", len(self.obligations))
        cov.setdefault("discharged", self.discharged)
        cov.setdefault("checker_cmd", "cd /verif/coq && make theories/Props/%s.vo  (coqc 8.16.1; Print Assumptions under every property theorem)" % self.pid)
        cov.setdefault("trusted_base", TRUSTED_BASE)
        cov["obligation_names"] = self.obligations
        ev = {
            "property_id": self.pid, "tier": self.tier, "seed": self.seed, "level": self.level,
            "coverage": cov, "assumptions": self.assumptions, "wall_s": round(wall, 2),
            "violations": len([l for l in lines if l.startswith("VIOLATION")]),
        }
        with open(os.path.join(EVIDENCE, "%s.json" % self.pid), "w") as f:
            json.dump(ev, f, indent=1, ensure_ascii=False, default=repr)
        for l in lines:
            print(l, flush=True)
        if not fail:
            print("OK property=%s tier=%s wall=%.1fs" % (self.pid, self.tier, wall), flush=True)
        return 1 if fail else 0


TRUSTED_BASE = [
    "Coq 8.16.1 kernel (coqc); vm_compute for instance lemmas and refutation witnesses; no native_compute",
    "no axioms: Print Assumptions under every property theorem must say 'Closed under the global context'",
    "translator tools/extract_facts.py (whole-file templates of the 28 modelled source files with 30 holes at the decision points, fail-closed: any other difference makes the file's fact ill-typed) producing Extracted.v; tools/sexp2coq.py + harness/direct/src/bin/front.rs producing GrammarEbnf.v",
    "extraction to OCaml (ExtrOcamlBasic only: bool/option/list/prod/unit/sumbool; no Extract Constant) + ocaml/driver.ml, used only for the correspondence runs",
    "correspondence harness (harness/*, lib/*.py): differential execution of the real crates against the extracted model",
    "rustc/cargo/std, and the parts of the code that are modelled rather than verified (see DESIGN.md section 7)",
]


def load_cfg(ctx):
    """facts as found by the translator (for reporting)"""
    text = open(os.path.join(THEORIES, "Extracted.v")).read()
    ctx.facts = dict(re.findall(r"^Definition x_(\w+?) : \w+ := (\w+)\.", text, re.M))
