"""Build and run real generated parsers.

For every grammar text: the real front end dumps the AST (vp-front dump), the
real generator emits the code (vp-front gen), the code is compiled into shard
binaries against /repo/runtime with the cfg(peginator_verif) hook on, and the
shard answers parse requests with everything observable: Debug tree or
ParseError, the callback sequence seen by a recording ParseTracer, and the
log of user-hook invocations."""
import hashlib
import json
import os
import re
import select
import shutil
import subprocess
import time
from concurrent.futures import ThreadPoolExecutor

from . import vp

GEN = os.path.join(vp.CACHE, "gen")
HOOKS_RS = os.path.join(vp.VERIF, "harness", "gen", "hooks.rs")


class G:
    """one grammar of a stream"""

    def __init__(self, gid, text, ctx=False, derives=None, meta=None):
        self.gid, self.text, self.ctx, self.derives = gid, text, ctx, derives
        self.meta = meta or {}
        self.sexpr = None          # AST dump (str) or None
        self.parse_error = None    # (pos, spec) of the front end
        self.gen = None            # "CODE" | "ERROR" | "CRASH" | "TIMEOUT" | "PARSE-ERROR"
        self.gen_msg = ""
        self.code = None
        self.rustc_error = None
        self.assert_code = None    # exact-type assertions generated from the compiler model's declarations
        self.mcompile = None       # the compiler model's answer for this grammar
        self.wf = None             # WellFormed.well_formed (the termination certificate checks), from the model
        self.wf_lr = None          # LRTerm.well_formed_lr (left recursion through @leftrec rules allowed)
        self.exports = []


def _front(front, args, timeout=20):
    try:
        p = subprocess.run([front] + args, stdout=subprocess.PIPE, stderr=subprocess.PIPE, text=True,
                           timeout=timeout, errors="replace")
    except subprocess.TimeoutExpired:
        return "TIMEOUT", "", ""
    if p.returncode != 0:
        return "CRASH", p.stdout, p.stderr[-800:] + " rc=%d" % p.returncode
    return "OK", p.stdout, p.stderr


def exports_of(sexpr):
    out = []
    for m in re.finditer(r"\(rule \(dirs([^()]*(?:\(check \([^()]*\)\))*[^()]*)\) n:([0-9a-f]+) ", sexpr):
        if re.search(r"\bexport\b", m.group(1)):
            out.append(bytes.fromhex(m.group(2)).decode())
    return out


def prepare(front, grammars, workdir):
    os.makedirs(workdir, exist_ok=True)

    def one(g):
        path = os.path.join(workdir, g.gid + ".ebnf")
        with open(path, "w", encoding="utf-8") as f:
            f.write(g.text)
        st, out, err = _front(front, ["dump", path])
        if st == "OK" and out.startswith("(grammar"):
            g.sexpr = out.strip()
            g.exports = exports_of(g.sexpr)
        elif st == "OK" and out.startswith("PARSE-ERROR"):
            parts = out.strip().split("\t")
            g.parse_error = (int(parts[1]), parts[2])
        else:
            g.parse_error = (-1, st + " " + err)
        args = ["gen", path]
        if g.ctx:
            args.append("ctx=crate::hooks::Ctx")
        if g.derives is not None:
            args.append("derives=" + ",".join(g.derives))
        st, out, err = _front(front, args)
        if st != "OK":
            g.gen, g.gen_msg = st, err
        elif out.startswith("CODE\n"):
            g.gen, g.code = "CODE", out[5:]
        elif out.startswith("ERROR\t"):
            g.gen, g.gen_msg = "ERROR", out[6:].strip()
        elif out.startswith("PARSE-ERROR"):
            g.gen, g.gen_msg = "PARSE-ERROR", out.strip()
        else:
            g.gen, g.gen_msg = "CRASH", out[:200] + err
        return g

    with ThreadPoolExecutor(16) as ex:
        list(ex.map(one, grammars))
    return grammars


MAIN_HEAD = '''#![forbid(unsafe_code)]
#![allow(warnings)]
#[path = "%s"]
pub mod hooks;
use peginator::{ParseError, ParseSettings, PegParserAdvanced};
use std::io::{BufRead, Write};

fn unhex(s: &str) -> Vec<u8> {
    (0..s.len() / 2).map(|i| u8::from_str_radix(&s[2 * i..2 * i + 2], 16).unwrap()).collect()
}
fn logs() -> String {
    let t = hooks::TRACE.with(|t| t.borrow().join(";"));
    let h = hooks::HLOG.with(|t| t.borrow().join(";"));
    format!("{}\\t{}", t, h)
}
fn fmt<T: std::fmt::Debug>(r: Result<T, ParseError>) -> String {
    match r {
        Ok(v) => format!("OK\\t{}\\t{}", hooks::hex(format!("{:?}", v).as_bytes()), logs()),
        Err(e) => format!("ERR\\t{}\\t{}\\t{}", e.position, hooks::spec_str(&e.specifics), logs()),
    }
}
fn fmt_nodebug<T>(r: Result<T, ParseError>) -> String {
    match r {
        Ok(_) => format!("OK\\t\\t{}", logs()),
        Err(e) => format!("ERR\\t{}\\t{}\\t{}", e.position, hooks::spec_str(&e.specifics), logs()),
    }
}
'''

MAIN_TAIL = '''
// mt <gid> <rule hex> <threads> <hex inputs separated by ,>: every thread parses every input (in its
// own shuffled order); answer: for each input the number of distinct results seen and one of them
fn handle_mt(p: &[&str]) -> String {
    let gid = p[1].to_string();
    let rule = String::from_utf8(unhex(p[2])).unwrap();
    let threads: usize = p[3].parse().unwrap();
    let inputs: Vec<String> = p[4].split(',').map(|h| String::from_utf8(unhex(h)).unwrap()).collect();
    let mut handles = Vec::new();
    for t in 0..threads {
        let gid = gid.clone();
        let rule = rule.clone();
        let inputs = inputs.clone();
        handles.push(std::thread::Builder::new().stack_size(1 << 26).spawn(move || {
            let n = inputs.len();
            let mut order: Vec<usize> = (0..n).collect();
            // a different permutation per thread (deterministic)
            for i in 0..n { let j = (i * 7 + t * 13 + 3) % n; order.swap(i, j); }
            let mut res = vec![String::new(); n];
            for rep in 0..3 {
                for &i in &order {
                    hooks::TRACE.with(|t| t.borrow_mut().clear());
                    hooks::HLOG.with(|t| t.borrow_mut().clear());
                    let r = std::panic::catch_unwind(std::panic::AssertUnwindSafe(|| dispatch(&gid, &rule, &inputs[i], "rec")));
                    let s = match r { Ok(Some(s)) => s, Ok(None) => "NOSUCH".to_string(), Err(_) => "PANIC".to_string() };
                    if rep > 0 && res[i] != s { res[i] = format!("UNSTABLE:{}|{}", res[i], s); } else { res[i] = s; }
                }
            }
            res
        }).unwrap());
    }
    let all: Vec<Vec<String>> = handles.into_iter().map(|h| h.join().unwrap()).collect();
    let mut out = Vec::new();
    for i in 0..inputs.len() {
        let mut distinct: Vec<&String> = all.iter().map(|r| &r[i]).collect();
        distinct.sort();
        distinct.dedup();
        out.push(format!("{}:{}", distinct.len(), hooks::hex(distinct[0].as_bytes())));
    }
    out.join(",")
}

// evals <gid> <rule hex> <unit hex> <n> <tail hex> <hex names of memoized rules, separated by ,>:
// parses unit*n + tail with the recording tracer and counts, for every listed rule and offset, the
// entries that are not answered by "Cache hit"; answer: result kind, number of trace events, total
// evaluations counted, number of (rule, offset) pairs evaluated more than once, the first ten of them
fn handle_evals(p: &[&str]) -> String {
    let rule = String::from_utf8(unhex(p[2])).unwrap();
    let unit = String::from_utf8(unhex(p[3])).unwrap();
    let n: usize = p[4].parse().unwrap();
    let tail = String::from_utf8(unhex(p[5])).unwrap();
    let names: std::collections::HashSet<&str> = p[6].split(',').collect();
    let mut input = unit.repeat(n);
    input.push_str(&tail);
    hooks::TRACE.with(|t| t.borrow_mut().clear());
    hooks::HLOG.with(|t| t.borrow_mut().clear());
    let r = std::panic::catch_unwind(std::panic::AssertUnwindSafe(|| dispatch(p[1], &rule, &input, "rec")));
    let kind = match r {
        Ok(Some(s)) => s.split('\\t').next().unwrap_or("?").to_string(),
        Ok(None) => return "NOSUCH".to_string(),
        Err(_) => "PANIC".to_string(),
    };
    let mut counts: std::collections::BTreeMap<(String, usize), usize> = std::collections::BTreeMap::new();
    let events = hooks::TRACE.with(|t| {
        let t = t.borrow();
        for i in 0..t.len() {
            if let Some(rest) = t[i].strip_prefix("S:") {
                let mut it = rest.split(':');
                let nm = it.next().unwrap();
                let off: usize = it.next().unwrap().parse().unwrap();
                if names.contains(nm) && !(i + 1 < t.len() && t[i + 1] == "I:0") {
                    *counts.entry((nm.to_string(), off)).or_insert(0) += 1;
                }
            }
        }
        t.len()
    });
    let total: usize = counts.values().sum();
    let over: Vec<String> = counts.iter().filter(|(_, &c)| c > 1).map(|((nm, off), c)| format!("{}:{}:{}", nm, off, c)).collect();
    format!("EVALS\\t{}\\t{}\\t{}\\t{}\\t{}", kind, events, total, over.len(), over[..over.len().min(10)].join(","))
}

fn handle(line: &str) -> String {
    let p: Vec<&str> = line.split('\\t').collect();
    if p.len() >= 5 && p[0] == "mt" {
        return handle_mt(&p);
    }
    if p.len() >= 7 && p[0] == "evals" {
        return handle_evals(&p);
    }
    if p.len() < 4 || p[0] != "parse" {
        return "BADREQ".to_string();
    }
    let rule = String::from_utf8(unhex(p[2])).unwrap();
    let input = String::from_utf8(unhex(p[3])).unwrap();
    let mode = if p.len() > 4 { p[4] } else { "rec" };
    hooks::TRACE.with(|t| t.borrow_mut().clear());
    hooks::HLOG.with(|t| t.borrow_mut().clear());
    let r = std::panic::catch_unwind(std::panic::AssertUnwindSafe(|| dispatch(p[1], &rule, &input, mode)));
    match r {
        Ok(Some(s)) => s,
        Ok(None) => "NOSUCH".to_string(),
        Err(e) => {
            let msg = if let Some(s) = e.downcast_ref::<String>() { s.clone() }
                      else if let Some(s) = e.downcast_ref::<&str>() { s.to_string() } else { "?".to_string() };
            format!("PANIC\\t{}\\t{}", hooks::hex(msg.as_bytes()), logs())
        }
    }
}

fn main() {
    std::panic::set_hook(Box::new(|_| {}));
    let worker = std::thread::Builder::new().stack_size(1 << 29).spawn(|| {
        let stdin = std::io::stdin();
        let stdout = std::io::stdout();
        for line in stdin.lock().lines() {
            let line = line.unwrap();
            let resp = handle(&line);
            let mut out = stdout.lock();
            writeln!(out, "{}", resp).unwrap();
            out.flush().unwrap();
        }
    }).unwrap();
    worker.join().unwrap();
}
'''


def _shard_main(gs):
    parts = [MAIN_HEAD % HOOKS_RS]
    arms = []
    for g in gs:
        if g.meta.get("via_macro"):
            parts.append("mod %s { use super::hooks; include!(\"%s.rs\"); }\n" % (g.gid, g.gid))
        else:
            if getattr(g, "assert_code", None):
                parts.append("mod %s { use super::hooks; include!(\"%s.rs\"); include!(\"%s_assert.rs\"); }\n" % (g.gid, g.gid, g.gid))
            else:
                parts.append("mod %s { use super::hooks; include!(\"%s.rs\"); }\n" % (g.gid, g.gid))
        nodebug = g.derives is not None and "Debug" not in g.derives
        for r in g.exports:
            ty = "%s::%s" % (g.gid, r if not _is_kw(r) else "r#" + r)
            f = "fmt_nodebug" if nodebug else "fmt"
            if g.ctx:
                call = lambda tracer: "{ let mut c = hooks::Ctx::new(); %s(<%s>::parse_advanced::<%s>(input, &ParseSettings::default(), &mut c)) }" % (f, ty, tracer)
            else:
                call = lambda tracer: "%s(<%s>::parse_advanced::<%s>(input, &ParseSettings::default(), ()))" % (f, ty, tracer)
            arms.append('        ("%s", "%s", "rec") => Some(%s),' % (g.gid, r, call("hooks::RecTracer")))
            arms.append('        ("%s", "%s", "noop") => Some(%s),' % (g.gid, r, call("peginator::NoopTracer")))
            arms.append('        ("%s", "%s", "indent") => Some(%s),' % (g.gid, r, call("peginator::IndentedTracer")))
            if not g.ctx:
                # the public entry points themselves
                arms.append('        ("%s", "%s", "pub") => Some(%s(<%s as peginator::PegParser>::parse(input))),' % (g.gid, r, f, ty))
                arms.append('        ("%s", "%s", "pubtrace") => Some(%s(<%s as peginator::PegParser>::parse_with_trace(input))),' % (g.gid, r, f, ty))
    parts.append("fn dispatch(gid: &str, rule: &str, input: &str, mode: &str) -> Option<String> {\n    match (gid, rule, mode) {\n")
    parts.append("\n".join(arms))
    parts.append("\n        _ => None,\n    }\n}\n")
    parts.append(MAIN_TAIL)
    return "".join(parts)


KW = set("as break const continue else enum extern false fn for if impl in let loop match mod move mut pub ref return static struct trait true type unsafe use where while async await dyn abstract become box do final macro override priv typeof unsized virtual yield try".split())


def _is_kw(r):
    return r in KW


def build(grammars, key, nshards=16, profile="dev"):
    """Compile the grammars whose generation succeeded; returns {gid: exe}.
    Grammars rustc rejects get .rustc_error and are left out."""
    ws = os.path.join(GEN, key)
    ok = [g for g in grammars if g.gen == "CODE" and g.exports]
    exes = {}
    for attempt in range(6):
        if os.path.exists(ws):
            shutil.rmtree(ws)
        os.makedirs(ws)
        live = [g for g in ok if g.rustc_error is None]
        if not live:
            return exes
        k = max(1, min(nshards, (len(live) + 3) // 4))
        shards = [live[i::k] for i in range(k)]
        members = []
        for i, gs in enumerate(shards):
            d = os.path.join(ws, "s%d" % i, "src")
            os.makedirs(d)
            members.append("s%d" % i)
            with open(os.path.join(ws, "s%d" % i, "Cargo.toml"), "w") as f:
                f.write('[package]\nname = "s%d"\nversion = "0.0.0"\nedition = "2021"\npublish = false\n\n[dependencies]\npeginator = { path = "%s/runtime" }\n' % (i, vp.REPO))
                if any(g.meta.get("via_macro") for g in gs):
                    f.write('peginator_macro = { path = "%s/macro" }\n' % vp.REPO)
            for g in gs:
                with open(os.path.join(d, g.gid + ".rs"), "w", encoding="utf-8", newline="") as f:
                    f.write(macro_call(g) if g.meta.get("via_macro") else g.code)
                if getattr(g, "assert_code", None):
                    with open(os.path.join(d, g.gid + "_assert.rs"), "w", encoding="utf-8") as f:
                        f.write(g.assert_code)
            with open(os.path.join(d, "main.rs"), "w", encoding="utf-8") as f:
                f.write(_shard_main(gs))
        with open(os.path.join(ws, "Cargo.toml"), "w") as f:
            f.write('[workspace]\nresolver = "2"\nmembers = [%s]\n\n[profile.dev]\ndebug = false\nincremental = false\n\n[profile.release]\ndebug = false\nincremental = false\nopt-level = 2\n' %
                    ", ".join('"%s"' % m for m in members))
        shutil.copy(os.path.join(vp.REPO, "Cargo.lock"), os.path.join(ws, "Cargo.lock"))
        cmd = ["cargo", "build", "--offline", "--workspace", "--keep-going", "--message-format=short"]
        if profile == "release":
            cmd.append("--release")
        env = {"CARGO_TARGET_DIR": os.path.join(vp.CACHE, "target-gen"), "RUSTFLAGS": "--cfg %s" % vp.GUARD}
        rc, out = vp.run(cmd, cwd=ws, env=env, timeout=3000)
        if rc == 0:
            sub = "release" if profile == "release" else "debug"
            for i, gs in enumerate(shards):
                for g in gs:
                    exes[g.gid] = os.path.join(vp.CACHE, "target-gen", sub, "s%d" % i)
            # copy the binaries next to the workspace so later builds do not overwrite them
            bindir = os.path.join(ws, "bin")
            os.makedirs(bindir, exist_ok=True)
            for i in range(len(shards)):
                src = os.path.join(vp.CACHE, "target-gen", sub, "s%d" % i)
                shutil.copy(src, os.path.join(bindir, "s%d" % i))
            for g in live:
                exes[g.gid] = os.path.join(bindir, os.path.basename(exes[g.gid]))
            return exes
        bad = set(x[:-7] if x.endswith("_assert") else x for x in re.findall(r"src/(g\w+)\.rs:\d+", out))
        if not bad:
            raise RuntimeError("shard build failed without a culprit:\n" + out[-5000:])
        for g in live:
            if g.gid in bad:
                errs = [l for l in out.split("\n") if ("src/%s.rs" % g.gid) in l or ("src/%s_assert.rs" % g.gid) in l]
                g.rustc_error = "\n".join(errs[:5])
    raise RuntimeError("shard build keeps failing")


def rust_cooked(text):
    """the text as an ordinary (escaped) Rust string literal"""
    o = []
    for ch in text:
        if ch == "\\":
            o.append("\\\\")
        elif ch == '"':
            o.append('\\"')
        elif ch == "\n":
            o.append("\\n")
        elif ch == "\r":
            o.append("\\r")
        elif ch == "\t":
            o.append("\\t")
        else:
            o.append(ch)
    return '"' + "".join(o) + '"'


def macro_call(g):
    """the peginate! invocation for a grammar: raw or escaped literal (meta macro_lit)"""
    if g.meta.get("macro_lit") == "cooked":
        return "peginator_macro::peginate!(%s);\n" % rust_cooked(g.text)
    return "peginator_macro::peginate!(r#####\"%s\"#####);\n" % g.text


def pipe_resilient(exe, lines, per_line_timeout=20.0, env=None):
    """Like vp.pipe_lines, but a request that kills or hangs the process gets
    the answer CRASH / TIMEOUT and the process is restarted for the rest."""
    e = dict(os.environ)
    e["NO_COLOR"] = "1"
    if env:
        e.update(env)
    out = []
    i = 0
    n = len(lines)
    dead = set()      # request keys (kind, grammar id) that already hung once: not run again

    def key(l):
        return tuple(l.split("\t")[:2])
    while i < n:
        if key(lines[i]) in dead:
            out.append("SKIPPED")        # not run: an earlier request for this grammar hung
            i += 1
            continue
        p = subprocess.Popen([exe], stdin=subprocess.PIPE, stdout=subprocess.PIPE, stderr=subprocess.DEVNULL,
                             env=e, bufsize=0)
        chunk = lines[i:]
        data = ("\n".join(chunk) + "\n").encode()
        import threading

        def feed():
            try:
                p.stdin.write(data)
                p.stdin.close()
            except Exception:
                pass
        th = threading.Thread(target=feed, daemon=True)
        th.start()
        buf = b""
        got = 0
        status = "EOF"
        last = time.time()
        while got < len(chunk):
            r, _, _ = select.select([p.stdout], [], [], 1.0)
            if r:
                d = os.read(p.stdout.fileno(), 1 << 16)
                if not d:
                    status = "CRASH"
                    break
                buf += d
                while b"\n" in buf:
                    l, buf = buf.split(b"\n", 1)
                    out.append(l.decode("utf-8", "replace"))
                    got += 1
                    last = time.time()
            elif time.time() - last > per_line_timeout:
                status = "TIMEOUT"
                break
        try:
            p.kill()
        except Exception:
            pass
        p.wait()
        i += got
        if got < len(chunk):
            out.append(status)
            if status == "TIMEOUT":
                dead.add(key(lines[i]))
            i += 1
    return out
