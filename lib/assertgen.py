"""Exact-type assertions, generated from the declarations the compiler MODEL
predicts and compiled by rustc against the code the real generator emitted
(C03 observe_at): exhaustive destructuring without `..`, exhaustive matches
without wildcard, `let _: &T = ..` for every field / variant / alias."""
from .genrun import _is_kw


def ident(h):
    s = bytes.fromhex(h).decode()
    return "r#" + s if _is_kw(s) else s


def rtype(t):
    if t.startswith("N"):
        return ident(t[1:])
    if t == "C":
        return "char"
    if t == "S":
        return "String"
    if t.startswith("P"):
        return "::".join(ident(p) for p in t[1:].split("."))
    for k, w in (("B(", "Box"), ("O(", "Option"), ("V(", "Vec")):
        if t.startswith(k):
            return "%s<%s>" % (w, rtype(t[2:-1]))
    raise ValueError(t)


def assertions(model_decls):
    """model_decls: the ';'-separated decl strings of an OK answer -> Rust source of a module body"""
    out = ["#[allow(warnings)]\nmod __exact_types {\n    use super::*;\n"]
    for i, d in enumerate(x for x in model_decls.split(";") if x):
        k = d.split(":")
        if k[0] == "struct":
            name = ident(k[1])
            fs = [f.split("=") for f in k[3].split(",") if f]
            pats = ["%s: __f%d" % (ident(f[0]), j) for j, f in enumerate(fs)]
            lets = ["let _: &%s = __f%d;" % (rtype(f[1]), j) for j, f in enumerate(fs)]
            if k[2] == "1":
                pats.append("position: __pos")
                lets.append("let _: &std::ops::Range<usize> = __pos;")
            out.append("    fn a%d(v: &%s) { let %s { %s } = v; %s }\n" % (i, name, name, ", ".join(pats), " ".join(lets)))
        elif k[0] == "unit":
            out.append("    fn a%d() { let _: %s = %s; }\n" % (i, ident(k[1]), ident(k[1])))
        elif k[0] == "alias":
            out.append("    fn a%d(v: &%s) { let _: &%s = v; }\n    fn b%d(v: &%s) { let _: &%s = v; }\n" %
                       (i, ident(k[1]), rtype(k[2]), i, rtype(k[2]), ident(k[1])))
        elif k[0] == "enum":
            name = ident(k[1])
            arms = []
            for v in k[2].split(","):
                boxed = v.endswith("*")
                vn = bytes.fromhex(v.rstrip("*")).decode()
                inner = "char" if vn == "char" else ident(v.rstrip("*"))
                arms.append("%s::%s(x) => { let _: &%s = x; }" % (name, ident(v.rstrip("*")), ("Box<%s>" % inner) if boxed else inner))
            out.append("    fn a%d(v: &%s) { match v { %s } }\n" % (i, name, " ".join(arms)))
    out.append("}\n")
    return "".join(out)
