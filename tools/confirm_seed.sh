#!/bin/bash
# usage: confirm_seed.sh <worktree> <demo dir name under worktree> <seed name>
# Confirms independently: test suite passes with the change; demo fails with it and passes without.
set -u
WT=$1; DEMO=$2; NAME=$3
export CARGO_TARGET_DIR=$WT/target CARGO_NET_OFFLINE=true
cd $WT || exit 2
git diff --quiet && { echo "no change applied in $WT"; exit 2; }
echo "== test suite with the change"
cargo test --workspace --offline 2>&1 | grep -E "^test result|FAILED|error(\[|:)" | sort | uniq -c
echo "== demo with the change (must fail)"
(cd $WT/$DEMO && cargo run --offline -q >/tmp/demo_with.log 2>&1; echo "exit=$?")
git diff > /tmp/confirm_seed_patch.diff; git apply -R /tmp/confirm_seed_patch.diff
echo "== demo without the change (must pass)"
(cd $WT/$DEMO && cargo run --offline -q >/tmp/demo_without.log 2>&1; echo "exit=$?")
git apply /tmp/confirm_seed_patch.diff
git diff --stat | tail -1
