#!/usr/bin/env python3
"""Runs every claimed check (quick tier) and validates manifest + evidence."""
import json, subprocess, sys, os
V = os.path.dirname(os.path.dirname(os.path.abspath(__file__)))
m = json.load(open(os.path.join(V, "MANIFEST.json")))
tier = sys.argv[1] if len(sys.argv) > 1 else "quick"
bad = 0
for c in m["checks"]:
    cmd = c["quick_cmd"] if tier == "quick" else c["thorough_cmd"]
    p = subprocess.run(cmd, shell=True, cwd=V, stdout=subprocess.PIPE, stderr=subprocess.DEVNULL, text=True)
    last = [l for l in p.stdout.strip().split("\n") if l][-1:] or [""]
    print(c["property_id"], "rc=%d" % p.returncode, last[0][:150])
    bad += p.returncode != 0
r = subprocess.run(["python3-vt", "-c", """
import json,jsonschema
m=json.load(open('%s/MANIFEST.json'))
jsonschema.validate(m,json.load(open('/root/.vp/MANIFEST.schema.json')))
for c in m['checks']:
    jsonschema.validate(json.load(open(c['evidence_file'])),json.load(open('/root/.vp/EVIDENCE.schema.json')))
print('manifest+evidence valid:', len(m['checks']), 'checks')
""" % V])
sys.exit(1 if bad or r.returncode else 0)
