import json,re
m=json.load(open('/verif/MANIFEST.json'))
props={}
for l in open('/verif/properties.jsonl'):
    d=json.loads(l); props[d['id']]=d['title']
out=["## 6. Per-property: as built (generated from MANIFEST.json), then the plan\n",
     "The subsections `### Cxx` further down are the plan as it was written before any code existed.",
     "What was built for each property is recorded here; it is generated from `MANIFEST.json` (whose",
     "texts come from `tools/mk_manifest.py`), so it cannot drift from what the checks claim. Where the",
     "plan below and this part differ, this part is right.\n"]
for c in sorted(m['checks'], key=lambda c:c['property_id']):
    pid=c['property_id']
    out.append("#### %s — %s (as built)\n" % (pid, props[pid]))
    out.append("*Level:* %s. *Technique:* %s.\n" % (c['level_claimed']['category'], c.get('technique','')))
    out.append(c['level_claimed']['text']+"\n")
    if c.get('level_note'):
        out.append("*Trusted base, limits:* "+c['level_note']+"\n")
text="\n".join(out)+"\n"
p='/verif/DESIGN.md'
s=open(p).read()
a=s.index("## 6. Per-property")
b=s.index("### C01 — generated parsers recognise exactly the PEG language")
# keep the plan's own intro paragraph
intro_start=s.index("For each property: **T** theorems")
plan_intro="### 6.1 The plan (as written before building)\n\n"+s[intro_start:b]
s=s[:a]+text+plan_intro+s[b:]
open(p,'w').write(s)
print(len(text))
