"""Grammar and input generator for the correspondence streams (one PRNG).

Generates grammars *inside the properties' quantifiers*: every referenced rule
defined, left recursion only through @leftrec rules, closure bodies that
consume, recursive types broken by `*` or a Vec, names that do not collide with
the prelude or the templates' own identifiers.  Inputs are sentences derived
from the grammar (mostly valid), their mutations, and random strings.
"""
import random

# ----------------------------------------------------------------------------
# expression AST (python tuples)
#  ("choice", [seq, ...])   ("seq", [part, ...])
#  ("group", choice) ("opt", choice) ("clo", choice, plus) ("neg", e) ("pos", e)
#  ("range", a, b) ("lit", s, insensitive) ("eoi",) ("inc", rule)
#  ("field", fname | None | "@", boxed, typ)

LIT_POOL = ["a", "b", "x", "(", ")", "+", "-", ",", ";", "if", "ab", "let", "é", "ß", "😀", "→", "aé", "=", "==",
            # literals that begin with a whitespace character (in a skipping rule the skip runs first and eats it)
            " x", "\n", "\t="]
ILIT_POOL = ["a", "Z", "select", "If", "ab", "x1", "_", "{", "0", "@"]
RANGE_POOL = [("a", "z"), ("0", "9"), ("A", "F"), ("à", "ÿ"), ("a", "é"), ("!", "~"), ("α", "ω"), ("😀", "😏")]
FIELD_NAMES = ["a", "b", "c", "d", "type", "fn", "x1"]
WS_CHOICES = ["", "", " ", " ", "  ", "\n", "\t", " \r\n", "\x0c"]
NEAR_WS = ["\x0b", " ", " "]
ALPHABET = list("abxz019(),;+-= \n\t_{[@`") + ["é", "ß", "😀", "→", "à", "α", "A", "Z", "F", "\ufeff"]


class Rule:
    def __init__(self, name, kind="rule", dirs=None, body=None, extern=None, parts=None, checks=None):
        self.name, self.kind = name, kind
        self.dirs = dirs or []          # list of directive strings: "@export", "@check(p::q)"
        self.body = body                # choice
        self.extern = extern            # (path, rettype or None)
        self.parts = parts or []        # char rule parts: ("c", ch) ("r", a, b) ("i", name)
        self.checks = checks or []      # char rule checks
        self.nullable = False
        self.skip = True


def esc_char(c, rnd, quote):
    o = ord(c)
    forms = []
    if c == "\n":
        forms = ["\\n", "\\n", "\n"]
    elif c == "\r":
        forms = ["\\r", "\\r", "\r"]
    elif c == "\t":
        forms = ["\\t", "\\t", "\t"]
    elif c == "\\":
        forms = ["\\\\"]
    elif c == "'":
        forms = ["\\'"] if quote == "'" else ["'", "\\'"]
    elif c == '"':
        forms = ['\\"'] if quote == '"' else ['"', '\\"']
    else:
        forms = [c, c, c]
    if o < 256:
        forms.append("\\x%02x" % o)
        forms.append("\\x%02X" % o)
    if o < 0x10000:
        forms.append("\\u%04x" % o)
    forms.append("\\U00%06X" % o)
    forms.append("\\u{%x}" % o)
    forms.append("\\u{%06X}" % o)
    if rnd is None:
        return forms[0]
    if rnd.random() < 0.75:
        return forms[0]
    return rnd.choice(forms)


def lit_text(s, ins, rnd):
    q = "'" if (rnd is None or rnd.random() < 0.6) else '"'
    body = "".join(esc_char(c, rnd, q) for c in s)
    return ("i" if ins else "") + q + body + q


class Printer:
    """prints a grammar; rnd=None gives the plain layout"""

    def __init__(self, rnd=None, fancy=False, inline=None, parens=False):
        self.rnd, self.fancy = rnd, fancy
        self.inline = inline   # dict name -> body: print `>R` as the parenthesised body
        # redundant parentheses everywhere they are allowed: around the operand of every prefix operator and
        # around half of the parts of every sequence (the "parens" twin of a grammar: same meaning)
        self.parens = parens
        self.prnd = random.Random(4711)

    def gap(self):
        if not self.fancy or self.rnd is None:
            return " "
        r = self.rnd.random()
        if r < 0.6:
            return " "
        if r < 0.7:
            return "\n  "
        if r < 0.8:
            return " # c\n"
        if r < 0.9:
            return "\t"
        return "  "

    def expr(self, e):
        k = e[0]
        g = self.gap
        if k == "choice":
            return (g() + "|" + g()).join(self.expr(s) for s in e[1])
        if k == "seq":
            def part(p):
                t = self.expr(p)
                # redundant parentheses (fancy layouts only; never around `$`-less empties)
                if self.fancy and self.rnd is not None and t and self.rnd.random() < 0.08:
                    return "(" + g() + t + g() + ")"
                if self.parens and t and self.prnd.random() < 0.5:
                    return "(" + t + ")"
                return t
            return g().join(part(p) for p in e[1])
        if k == "group":
            return "(" + self.expr(e[1]) + ")"
        if k == "opt":
            return "[" + self.expr(e[1]) + "]"
        if k == "clo":
            return "{" + self.expr(e[1]) + "}" + ("+" if e[2] else "")
        if k == "neg":
            return "!" + ("(" + self.expr(e[1]) + ")" if self.parens else self.expr(e[1]))
        if k == "pos":
            return "&" + ("(" + self.expr(e[1]) + ")" if self.parens else self.expr(e[1]))
        if k == "range":
            return "'" + esc_char(e[1], self.rnd, "'") + "'..'" + esc_char(e[2], self.rnd, "'") + "'"
        if k == "lit":
            return lit_text(e[1], e[2], self.rnd)
        if k == "eoi":
            return "$"
        if k == "inc":
            if self.inline is not None:
                return "(" + self.expr(self.inline[e[1]]) + ")"
            return ">" + e[1]
        if k == "field":
            _, fn, boxed, typ = e
            if fn is None:
                return typ
            return ("@" if fn == "@" else fn) + ":" + ("*" if boxed else "") + typ
        raise ValueError(k)

    def rule(self, r):
        g = self.gap
        if r.kind == "extern":
            path, ret = r.extern
            return "@extern(%s%s)%s%s;" % (path, (" -> " + ret) if ret else "", g(), r.name)
        if r.kind == "char":
            parts = []
            for p in r.parts:
                if p[0] == "c":
                    parts.append("'" + esc_char(p[1], self.rnd, "'") + "'")
                elif p[0] == "r":
                    parts.append("'" + esc_char(p[1], self.rnd, "'") + "'..'" + esc_char(p[2], self.rnd, "'") + "'")
                else:
                    parts.append(p[1])
            pre = [("@check(%s)" % c) for c in r.checks]
            return g().join(pre + ["@char"]) + g() + r.name + " =" + g() + (g() + "|" + g()).join(parts) + ";"
        return g().join(r.dirs + [r.name]) + " =" + g() + self.expr(r.body) + ";"

    def grammar(self, rules):
        body = "\n".join(self.rule(r) for r in rules) + "\n"
        if self.fancy and self.rnd is not None:
            # what may follow the last rule: nothing more, blank space, or comment lines (a comment ends with its newline)
            body = self.rnd.choice(["", "# leading comment\n", "\n\n", " \t"]) + body
            body += self.rnd.choice(["", "\n", "  \n\t", "# the end\n", "\n# c\n# d\n", "# last\n\n"])
        return body


# ----------------------------------------------------------------------------

class Opts:
    def __init__(self, **kw):
        self.n_rules = (1, 4)
        self.depth = 3
        self.p_memo = 0.25
        self.p_leftrec = 0.15
        self.p_hooks = 0.3
        self.p_ctx = 0.15
        self.p_position = 0.3
        self.p_noskip = 0.25
        self.p_user_ws = 0.12
        self.p_include = 0.3
        self.p_override = 0.3
        self.p_lookahead = 0.3
        self.p_multibyte = 0.5
        self.p_frag_dir = 0.3
        self.fancy_layout = False
        for k, v in kw.items():
            setattr(self, k, v)


class GrammarGen:
    def __init__(self, rnd, opts):
        self.rnd, self.o = rnd, opts
        self.rules = []
        self.leaves = []       # names of non-nullable leaf rules usable anywhere
        self.leaf_info = {}    # name -> ("string"|"char"|"unit"|"extern"|"leftrec", payload)
        self.frags = []
        self.ctx = rnd.random() < opts.p_ctx
        self.hookpath = "crate::hooks::ctx::" if self.ctx else "crate::hooks::"

    # -- leaves ---------------------------------------------------------------
    def make_leaves(self):
        rnd = self.rnd
        mb = rnd.random() < self.o.p_multibyte

        def sr(name, body, extra=None):
            dirs = ["@string"]
            if rnd.random() < 0.8:
                dirs.append("@no_skip_ws")
            pos = rnd.random() < self.o.p_position * 0.5
            if pos:
                dirs.append("@position")
            if rnd.random() < self.o.p_memo * 0.5:
                dirs.append("@memoize")
            if not pos and rnd.random() < self.o.p_hooks * 0.5:
                for fn in rnd.sample(["chk_str_short", "chk_str_noa", "chk_true"], rnd.choice([1, 1, 2])):
                    dirs.append("@check(%s%s)" % (self.hookpath, fn))
            rnd.shuffle(dirs)
            r = Rule(name, dirs=dirs, body=body)
            self.rules_leaf.append(r)
            self.leaves.append(name)
            self.leaf_info[name] = ("string", extra)
        self.rules_leaf = []
        sr("Ident", ("choice", [("seq", [("clo", ("choice", [("seq", [("range", "a", "z")])]), True)])]), "az")
        sr("Num", ("choice", [("seq", [("clo", ("choice", [("seq", [("range", "0", "9")])]), True)])]), "09")
        if mb:
            sr("Word", ("choice", [("seq", [("clo", ("choice", [("seq", [("range", "à", "ÿ")]), ("seq", [("lit", "😀", False)])]), True)])]), "mb")
        # @char rules
        checks = []
        if rnd.random() < self.o.p_hooks:
            checks = ["crate::hooks::" + c for c in rnd.sample(["chk_lower", "chk_not_x"], rnd.choice([1, 2, 2]))]
        parts = [("r", "a", "f")] + ([("c", "é")] if mb else []) + [("c", "x")]
        self.rules_leaf.append(Rule("Lc", kind="char", parts=parts, checks=checks))
        self.leaves.append("Lc")
        self.leaf_info["Lc"] = ("char", parts)
        if rnd.random() < 0.4:
            self.rules_leaf.append(Rule("Hx", kind="char", parts=[("i", "Lc"), ("r", "0", "9"), ("i", "char")] if rnd.random() < 0.3 else [("i", "Lc"), ("r", "0", "9")]))
            self.leaves.append("Hx")
            self.leaf_info["Hx"] = ("char", [("r", "a", "f"), ("r", "0", "9")])
        # unit rules (one with a keyword name)
        for nm, lit in (("Kw", "let"), ("match", "match"), ("Op", "+")):
            if rnd.random() < 0.6:
                dirs = []
                if rnd.random() < self.o.p_hooks * 0.4:
                    dirs.append("@check(%s%s)" % (self.hookpath, rnd.choice(["chk_true", "chk_false", "chk_budget"] if self.ctx else ["chk_true", "chk_false"])))
                if rnd.random() < self.o.p_position * 0.4:
                    dirs.append("@position")
                if rnd.random() < self.o.p_memo * 0.4:
                    dirs.append("@memoize")
                self.rules_leaf.append(Rule(nm, dirs=dirs, body=("choice", [("seq", [("lit", lit, False)])])))
                self.leaves.append(nm)
                self.leaf_info[nm] = ("unit", lit)
        # externs
        if rnd.random() < self.o.p_hooks:
            for nm, fn, ret in (("XId", "ext_ident", None), ("XNum", "ext_num", "u32"), ("XAny", "ext_any2", None)):
                if rnd.random() < 0.5:
                    self.rules_leaf.append(Rule(nm, kind="extern", extern=(self.hookpath + fn, ret)))
                    self.leaves.append(nm)
                    self.leaf_info[nm] = ("extern", fn)
            if rnd.random() < 0.5:
                fn = "ext_next" if (self.ctx and rnd.random() < 0.5) else "ext_probe"
                self.rules_leaf.append(Rule("XProbe", kind="extern", extern=(self.hookpath + fn, "u32" if fn == "ext_next" else None)))
                self.leaf_info["XProbe"] = ("extern", fn)
                self.probe = "XProbe"
        # left-recursive leaf
        if rnd.random() < self.o.p_leftrec:
            self.make_leftrec()

    probe = None

    def make_leftrec(self):
        rnd = self.rnd
        shape = rnd.choice(["plain", "two_ops", "base_first", "indirect", "pos", "opt_suffix", "clo_suffix", "indirect_clo", "empty_base", "nested"])
        dirs = ["@leftrec"]
        if shape == "pos":
            dirs.append("@position")
        f = lambda fn, boxed, typ: ("field", fn, boxed, typ)
        if shape in ("plain", "pos"):
            body = ("choice", [("seq", [f("left", True, "LR"), ("lit", "+", False), f("n", False, "Num")]),
                               ("seq", [f("n", False, "Num")])])
        elif shape == "nested":       # two @leftrec rules, the inner one reached at the outer one's own offset
            body = ("choice", [("seq", [f("left", True, "LR"), ("lit", "+", False), f("t", False, "LRt")]),
                               ("seq", [f("t", False, "LRt")])])
            self.rules_leaf.append(Rule("LRt", dirs=["@leftrec"], body=("choice", [
                ("seq", [f("left", True, "LRt"), ("lit", "-", False), f("n", False, "Num")]),
                ("seq", [f("n", False, "Num")])])))
        elif shape == "two_ops":
            body = ("choice", [("seq", [f("left", True, "LR"), ("lit", "+", False), f("n", False, "Num")]),
                               ("seq", [f("left", True, "LR"), ("lit", "-", False), f("n", False, "Num")]),
                               ("seq", [f("n", False, "Num")])])
        elif shape == "base_first":
            body = ("choice", [("seq", [f("n", False, "Num"), ("neg", ("lit", "+", False))]),
                               ("seq", [f("left", True, "LR"), ("lit", "+", False), f("n", False, "Num")]),
                               ("seq", [f("n", False, "Num")])])
        elif shape == "empty_base":   # the base alternative can match the empty string
            body = ("choice", [("seq", [f("left", True, "LR"), ("lit", "+", False), f("n", False, "Num")]),
                               ("seq", [("opt", ("choice", [("seq", [f("n", False, "Num")])]))])])
        elif shape == "opt_suffix":   # the recursive alternative can match without consuming anything after the reference
            body = ("choice", [("seq", [f("left", True, "LR"), ("opt", ("choice", [("seq", [("lit", "+", False), f("n", False, "Num")])]))]),
                               ("seq", [f("n", False, "Num")])])
        elif shape == "clo_suffix":
            body = ("choice", [("seq", [f("left", True, "LR"), ("clo", ("choice", [("seq", [("lit", "+", False), f("n", False, "Num")])]), False)]),
                               ("seq", [f("n", False, "Num")])])
        elif shape == "indirect_clo":
            body = ("choice", [("seq", [f("@", False, "LRx")]), ("seq", [f("@", False, "Num")])])
            self.rules_leaf.append(Rule("LRx", body=("choice", [("seq", [f("head", True, "LR"), ("clo", ("choice", [("seq", [("lit", "+", False), f("tail", False, "Num")])]), False)])])))
        else:  # indirect through a non-memoized rule
            body = ("choice", [("seq", [f("left", True, "LRi"), ("lit", "+", False), f("n", False, "Num")]),
                               ("seq", [f("n", False, "Num")])])
            self.rules_leaf.append(Rule("LRi", body=("choice", [("seq", [f("@", False, "LR")])])))
        self.rules_leaf.append(Rule("LR", dirs=dirs, body=body))
        self.leaves.append("LR")
        self.leaf_info["LR"] = ("leftrec", shape)

    # -- expressions ---------------------------------------------------------
    def solid_atom(self, fields_ok, fields):
        """an atom that always consumes at least one byte"""
        rnd = self.rnd
        r = rnd.random()
        if r < 0.35:
            return ("lit", rnd.choice([l for l in LIT_POOL if l]), False)
        if r < 0.45:
            return ("lit", rnd.choice(ILIT_POOL), True)
        if r < 0.6:
            a, b = rnd.choice(RANGE_POOL)
            return ("range", a, b)
        typ = rnd.choice(self.leaves + ["char"])
        if fields_ok and rnd.random() < 0.7:
            fn = rnd.choice(FIELD_NAMES)
            fields.add(fn)
            return ("field", fn, rnd.random() < 0.15, typ)
        return ("field", None, False, typ)

    def lookahead_body(self):
        rnd = self.rnd
        r = rnd.random()
        if r < 0.5:
            return ("lit", rnd.choice(LIT_POOL), False)
        if r < 0.7:
            a, b = rnd.choice(RANGE_POOL)
            return ("range", a, b)
        if r < 0.8:
            return ("field", None, False, rnd.choice(self.leaves + ["char"]))
        if r < 0.9:
            # bodies that can match without consuming anything (also at the very end of the input)
            k = rnd.randrange(5)
            if k == 0:
                return ("eoi",)
            if k == 1:
                return ("opt", ("choice", [("seq", [("lit", rnd.choice(LIT_POOL), False)])]))
            if k == 2:
                return ("clo", ("choice", [("seq", [("lit", rnd.choice(LIT_POOL), False)])]), False)
            if k == 3:
                return ("neg", ("lit", rnd.choice(LIT_POOL), False))
            return ("group", ("choice", [("seq", [("lit", rnd.choice(LIT_POOL), False)]), ("seq", [("eoi",)])]))
        if r < 0.95:
            return ("group", ("choice", [("seq", [("lit", rnd.choice(LIT_POOL), False), ("eoi",)]),
                                           ("seq", [("lit", rnd.choice(LIT_POOL), False)])]))
        # a body of several terminals: it can match a prefix and then fail further inside
        def atom():
            if rnd.random() < 0.7:
                return ("lit", rnd.choice(LIT_POOL), False)
            a, b = rnd.choice(RANGE_POOL)
            return ("range", a, b)
        return ("group", ("choice", [("seq", [atom() for _ in range(rnd.randint(2, 3))])]))

    def gen_seq(self, depth, i, fields_ok, fields, solid_first=False, guarded=False):
        rnd = self.rnd
        n = rnd.choice([1, 1, 2, 2, 3, 4]) if depth > 0 else rnd.choice([1, 2])
        parts = []
        for k in range(n):
            first = (k == 0)
            if first and solid_first:
                parts.append(self.solid_atom(fields_ok, fields))
                continue
            r = rnd.random()
            g2 = guarded or (len(parts) > 0 and self.is_solid(parts[0]))
            if depth > 0 and r < 0.12:
                parts.append(("opt", self.gen_choice(depth - 1, i, fields_ok, fields)))
            elif depth > 0 and r < 0.24:
                parts.append(("clo", self.gen_choice(depth - 1, i, fields_ok, fields, solid_first=True), rnd.random() < 0.4))
            elif depth > 0 and r < 0.30:
                parts.append(("group", self.gen_choice(depth - 1, i, fields_ok, fields)))
            elif r < 0.30 + self.o.p_lookahead * 0.3:
                body = self.lookahead_body()
                la = (rnd.choice(["neg", "pos"]), body)
                if rnd.random() < 0.25:
                    # a chain of prefix operators: !!x, &!x, !&x
                    la = (rnd.choice(["neg", "neg", "pos"]), la)
                parts.append(la)
                negs = (la[0] == "neg") + (la[1][0] == "neg" if la[1] is not body else 0)
                if negs % 2 == 0 and rnd.random() < 0.6:
                    # the chain demands that x follows: let x follow, so that the alternative can match
                    parts.append(body)
            elif r < 0.45 and self.frags and fields_ok and rnd.random() < self.o.p_include * 2:
                parts.append(("inc", rnd.choice(self.frags)))
            elif r < 0.60 and self.n_main > i + 1:
                # forward reference to a main rule
                j = rnd.randrange(i + 1, self.n_main)
                parts.append(self.main_ref(j, fields_ok, fields, boxed=rnd.random() < 0.15))
            elif r < 0.66 and g2 and i >= 0 and depth > 0:
                # guarded self/backward reference: boxed, or it sits in a Vec
                j = rnd.randrange(0, i + 1)
                parts.append(self.main_ref(j, fields_ok, fields, boxed=True))
            elif r < 0.70:
                parts.append(("eoi",))
            elif r < 0.73:
                parts.append(("lit", "", False))
            elif r < 0.80 and getattr(self, "ws_refs", False) and k > 0:
                # never first: keeps closure bodies consuming
                if fields_ok and rnd.random() < 0.6:
                    fn = rnd.choice(FIELD_NAMES)
                    fields.add(fn)
                    parts.append(("field", fn, False, "Whitespace"))
                else:
                    parts.append(("field", None, False, "Whitespace"))
            else:
                parts.append(self.solid_atom(fields_ok, fields))
        return ("seq", parts)

    def is_solid(self, p):
        if p[0] == "lit":
            return len(p[1]) > 0
        if p[0] == "range":
            return True
        if p[0] == "field":
            return p[3] in self.leaves or p[3] == "char"
        return False

    def main_ref(self, j, fields_ok, fields, boxed):
        name = "R%d" % j
        if fields_ok and self.rnd.random() < 0.75:
            fn = self.rnd.choice(FIELD_NAMES)
            fields.add(fn)
            return ("field", fn, boxed, name)
        return ("field", None, False, name)

    def gen_choice(self, depth, i, fields_ok, fields, solid_first=False):
        rnd = self.rnd
        n = rnd.choice([1, 1, 1, 2, 2, 3])
        alts = [self.gen_seq(depth, i, fields_ok, fields, solid_first) for _ in range(n)]
        if n >= 2:
            r = rnd.random()
            if r < 0.12 and not solid_first:
                # a non-last alternative made of lookaheads only (it consumes nothing: never in a closure body)
                k = rnd.randrange(n - 1)
                la = [(rnd.choice(["neg", "neg", "pos"]), self.lookahead_body())]
                if rnd.random() < 0.3:
                    la.append(("neg", self.lookahead_body()))
                alts[k] = ("seq", la)
            elif r < 0.30:
                # alternatives with a common first element (`callee:Ident '(' | kw:Ident ';'`): the second attempt at
                # the same offset is what memoization answers from the cache
                k = rnd.randrange(n - 1)
                first = alts[k][1][0]
                if first[0] in ("field", "lit", "range"):
                    alts[k + 1] = ("seq", [first] + list(alts[k + 1][1]))
        return ("choice", alts)

    # -- rules ---------------------------------------------------------------
    def generate(self):
        rnd, o = self.rnd, self.o
        self.make_leaves()
        self.user_ws = rnd.random() < o.p_user_ws
        self.ws_variant = rnd.randrange(4) if self.user_ws else None
        self.ws_refs = self.user_ws and rnd.random() < 0.7   # explicit references to the grammar's own Whitespace rule
        self.n_main = rnd.randint(*o.n_rules)
        # fragments for includes (bodies over leaves only)
        if rnd.random() < o.p_include:
            save_n = self.n_main
            self.n_main = 0
            for k in range(rnd.randint(1, 2)):
                fs = set()
                body = self.gen_choice(1, -1, True, fs, solid_first=True)
                dirs = []
                if rnd.random() < o.p_frag_dir:
                    dirs += rnd.sample(["@no_skip_ws", "@no_skip_ws", "@memoize", "@position", "@string", "@export"], rnd.choice([1, 1, 2]))
                    dirs = sorted(set(dirs), key=dirs.index)
                fr = Rule("F%d" % k, dirs=dirs, body=body)
                self.rules.append(fr)
                self.frags.append("F%d" % k)
            self.n_main = save_n
        mains = []
        for i in reversed(range(self.n_main)):
            name = "R%d" % i
            dirs = []
            kind = rnd.random()
            if i > 0 and kind < o.p_override * 0.5:
                # enum override
                alts = rnd.sample(self.leaves + ["char"], k=min(len(self.leaves) + 1, rnd.randint(2, 3)))
                body = ("choice", [("seq", ([("lit", rnd.choice(LIT_POOL), False)] if rnd.random() < 0.3 else []) +
                                    [("field", "@", rnd.random() < 0.2, t)]) for t in alts])
            elif i > 0 and kind < o.p_override:
                t = rnd.choice(self.leaves + ["char"])
                body = ("choice", [("seq", [("lit", rnd.choice(LIT_POOL), False), ("field", "@", False, t)])])
                if rnd.random() < 0.3:
                    body = ("choice", [("seq", [("opt", ("choice", [("seq", [("field", "@", False, t)])]))])])
            else:
                fs = set()
                body = self.gen_choice(o.depth, i, True, fs)
                if rnd.random() < o.p_position:
                    dirs.append("@position")
            if i == 0:
                dirs.append("@export")
            elif rnd.random() < 0.2 and not (kind < o.p_override and i > 0):
                dirs.append("@export")
            if rnd.random() < o.p_memo:
                dirs.append("@memoize")
            if rnd.random() < o.p_noskip:
                dirs.append("@no_skip_ws")
            if rnd.random() < o.p_hooks * 0.4:
                dirs.append("@check(%s%s)" % (self.hookpath, rnd.choice(
                    ["chk_true", "chk_false", "chk_true"] + (["chk_budget"] if self.ctx else []))))
            rnd.shuffle(dirs)
            mains.append(Rule(name, dirs=dirs, body=body))
        mains.reverse()
        # a probe at the start of memoized bodies (C06 oracle)
        if self.probe:
            for r in mains:
                if "@memoize" in r.dirs and r.body[0] == "choice" and rnd.random() < 0.7:
                    r.body = ("choice", [("seq", [("field", None, False, self.probe), ("group", r.body)])])
        # every fragment is included somewhere: an unused one is appended to the first alternative of R0
        def uses(e, nm):
            if isinstance(e, tuple):
                if e[0] == "inc" and e[1] == nm:
                    return True
                return any(uses(x, nm) for x in e[1:])
            if isinstance(e, list):
                return any(uses(x, nm) for x in e)
            return False
        for fr in self.frags:
            if mains and not any(uses(r.body, fr) for r in mains):
                b = mains[0].body
                if b[0] == "choice" and b[1] and b[1][0][0] == "seq":
                    b[1][0][1].append(("inc", fr))
        self.rules = mains + self.rules + self.rules_leaf
        if self.user_ws:
            ws_body = ("choice", [("seq", [("clo", ("choice", [("seq", [("field", None, False, "Comment")]),
                                                             ("seq", [("lit", " ", False)]), ("seq", [("lit", "\n", False)]),
                                                             ("seq", [("lit", "\t", False)])]), False)])])
            ws_dirs = ["@no_skip_ws"]
            if self.ws_variant == 1:
                ws_dirs.append("@position")
            elif self.ws_variant == 2:
                ws_dirs.append("@string")
            elif self.ws_variant == 3:       # not idempotent: at most one '_' and then blanks
                ws_body = ("choice", [("seq", [("opt", ("choice", [("seq", [("lit", "_", False)])])),
                                               ("clo", ("choice", [("seq", [("lit", " ", False)]), ("seq", [("field", None, False, "Comment")])]), False)])])
            rnd.shuffle(ws_dirs)
            self.rules.append(Rule("Whitespace", dirs=ws_dirs, body=ws_body))
            self.rules.append(Rule("Comment", dirs=["@no_skip_ws"], body=("choice", [("seq", [
                ("lit", "#", False), ("clo", ("choice", [("seq", [("neg", ("lit", "\n", False)), ("field", None, False, "char")])]), False),
                ("lit", "\n", False)])])))
        return self

    def text(self, rnd=None, fancy=False, inline=False, parens=False):
        inl = {r.name: r.body for r in self.rules if r.kind == "rule"} if inline else None
        return Printer(rnd, fancy, inl, parens).grammar(self.rules)

    # -- sentences -----------------------------------------------------------
    def rule_by_name(self, n):
        for r in self.rules:
            if r.name == n:
                return r
        return None

    def ws(self, skip):
        if not skip:
            return ""
        r = self.rnd.random()
        if r < 0.03:
            return self.rnd.choice(NEAR_WS)
        if self.user_ws and r < 0.1:
            return "# c\n"
        return self.rnd.choice(WS_CHOICES)

    def derive_rule(self, name, depth):
        rnd = self.rnd
        if name == "char":
            return rnd.choice(ALPHABET)
        if name == "Whitespace":
            return rnd.choice([" ", "", "\n"])
        r = self.rule_by_name(name)
        if r is None:
            return ""
        if r.kind == "extern":
            fn = r.extern[0].split("::")[-1]
            if fn == "ext_ident":
                return "".join(rnd.choice("abcxyz") for _ in range(rnd.randint(1, 4)))
            if fn == "ext_num":
                return "".join(rnd.choice("0123456789") for _ in range(rnd.randint(1, 5)))
            if fn == "ext_any2":
                return rnd.choice(ALPHABET) + rnd.choice(ALPHABET)
            return ""
        if r.kind == "char":
            p = rnd.choice(r.parts)
            if p[0] == "c":
                return p[1]
            if p[0] == "r":
                return chr(rnd.randint(ord(p[1]), ord(p[2])))
            return self.derive_rule(p[1], depth)
        skip = "@no_skip_ws" not in r.dirs
        return self.derive(r.body, depth, skip)

    def derive(self, e, depth, skip):
        rnd = self.rnd
        k = e[0]
        if k == "choice":
            alts = e[1]
            if depth <= 0:
                # prefer the shortest-looking alternative
                alts = sorted(alts, key=lambda s: len(s[1]))[:1]
            return self.derive(rnd.choice(alts), depth, skip)
        if k == "seq":
            return "".join(self.derive(p, depth, skip) for p in e[1])
        if k == "group":
            return self.derive(e[1], depth, skip)
        if k == "opt":
            return self.derive(e[1], depth - 1, skip) if (depth > 0 and rnd.random() < 0.5) else ""
        if k == "clo":
            lo = 1 if e[2] else 0
            n = rnd.randint(lo, 3) if depth > 0 else lo
            return "".join(self.derive(e[1], depth - 1, skip) for _ in range(n))
        if k in ("neg", "pos"):
            if rnd.random() < 0.25:
                # text on which the lookahead's body matches a prefix and then fails (makes the parse fail later or not)
                try:
                    t = self.derive(e[1], 1, skip)
                except Exception:
                    t = ""
                return t[:-1] if len(t) > 1 else ""
            return ""
        if k == "range":
            return self.ws(skip) + chr(rnd.randint(ord(e[1]), ord(e[2])))
        if k == "lit":
            s = e[1]
            if e[2]:
                s = "".join(c.upper() if rnd.random() < 0.5 else c.lower() for c in s)
            return self.ws(skip) + s
        if k == "eoi":
            return self.ws(skip)
        if k == "inc":
            r = self.rule_by_name(e[1])
            return self.derive(r.body, depth - 1, skip)
        if k == "field":
            return self.ws(skip) + self.derive_rule(e[3], depth - 1)
        raise ValueError(k)

    def sentences(self, rule, n):
        out = []
        for _ in range(n):
            try:
                s = self.derive_rule(rule, self.rnd.randint(1, 4))
            except RecursionError:
                s = ""
            out.append(s)
        return out

    def mutate(self, s):
        rnd = self.rnd
        if not s:
            return rnd.choice(ALPHABET)
        ops = rnd.randint(1, 2)
        cs = list(s)
        for _ in range(ops):
            r = rnd.random()
            p = rnd.randrange(len(cs) + 1)
            if r < 0.3 and cs:
                del cs[min(p, len(cs) - 1)]
            elif r < 0.6:
                cs.insert(p, rnd.choice(ALPHABET))
            elif r < 0.8 and cs:
                cs[min(p, len(cs) - 1)] = rnd.choice(ALPHABET)
            elif r < 0.9:
                cs = cs[:p]
            else:
                cs = cs + [rnd.choice(ALPHABET)]
        return "".join(cs)

    def inputs(self, rule, n):
        rnd = self.rnd
        valid = self.sentences(rule, max(2, n // 2))
        out = list(valid)
        while len(out) < n:
            r = rnd.random()
            if r < 0.7:
                out.append(self.mutate(rnd.choice(valid)))
            elif r < 0.76:
                out.append(rnd.choice(["\ufeff", "\ufeff", " ", "\u00a0", "\u3000"]) + rnd.choice(valid))
            elif r < 0.8:
                out.append(rnd.choice(valid) + rnd.choice(["", " ", "x", "\n"]))
            else:
                out.append("".join(rnd.choice(ALPHABET) for _ in range(rnd.randint(0, 8))))
        # stable de-duplication
        seen, res = set(), []
        for s in out:
            if s not in seen:
                seen.add(s)
                res.append(s)
        return res


def make(seed, idx, opts=None):
    rnd = random.Random((seed * 1000003 + idx) & 0xFFFFFFFF)
    gg = GrammarGen(rnd, opts or Opts()).generate()
    return gg


if __name__ == "__main__":
    import sys
    gg = make(int(sys.argv[1]) if len(sys.argv) > 1 else 1, int(sys.argv[2]) if len(sys.argv) > 2 else 0)
    print(gg.text())
    for s in gg.inputs("R0", 8):
        print(repr(s))
