"""Translator: ties the Coq model to /repo's current Rust sources.

Every Rust file the model mirrors is compared, after normalisation (comments
stripped, whitespace collapsed), with a template of the text the model was
written against (tools/templates/<file>.tmpl).  A template contains *holes*
at the decision points for which the model has a parameter (comparison
operators, arity-table rows, guards, wrapper shapes); each hole lists the
alternatives the model can represent and the Gallina value of each
(tools/templates/holes.json).  The values found are rendered into
coq/theories/Extracted.v, which the property files instantiate.

Fail-closed: a file that does not match its template (an edit outside a hole,
or an alternative the model does not have) makes every fact of that file
`unrecognised`; the property theorems that use them then no longer compile
and the check reports the property as no longer shown.  Nothing is ever
defaulted to the expected value for the proofs.  (`*_run` twins carry a
best-effort value so that the executable model can still be run for the
search for a failing input.)
"""
import json
import os
import re

HERE = os.path.dirname(os.path.abspath(__file__))
TDIR = os.path.join(HERE, "templates")
L, Rr = "⟦", "⟧"   # hole brackets


def comment_safe(t):
    """text that can sit inside a Coq comment: no comment brackets, no string quotes"""
    return t.replace("*)", "* )").replace("(*", "( *").replace('"', "''")


def strip_comments(text):
    out = []
    for line in text.split("\n"):
        i = 0
        n = len(line)
        res = []
        while i < n:
            c = line[i]
            if c == '"':
                j = i + 1
                while j < n and line[j] != '"':
                    if line[j] == "\\":
                        j += 1
                    j += 1
                res.append(line[i:j + 1])
                i = j + 1
            elif c == "'":
                # char literal or lifetime
                m = re.match(r"'(\\.[^']*|[^'\\])'", line[i:])
                if m:
                    res.append(m.group(0))
                    i += len(m.group(0))
                else:
                    res.append(c)
                    i += 1
            elif line.startswith("//", i):
                break
            else:
                res.append(c)
                i += 1
        out.append("".join(res))
    return "\n".join(out)


def normalise(text):
    return re.sub(r"\s+", " ", strip_comments(text)).strip()


def tname(rel):
    return rel.replace("/", "__") + ".tmpl"


def load_holes():
    with open(os.path.join(TDIR, "holes.json"), encoding="utf-8") as f:
        return json.load(f)


def match_file(repo, rel, holes):
    """returns (values dict or None, diagnostic)"""
    try:
        with open(os.path.join(repo, rel), encoding="utf-8") as f:
            actual = normalise(f.read())
    except OSError as e:
        return None, "cannot read: %s" % e
    tp = os.path.join(TDIR, tname(rel))
    with open(tp, encoding="utf-8") as f:
        tmpl = f.read().strip()
    parts = re.split(L + r"(\w+)" + Rr, tmpl)
    rx = []
    seen = set()
    for i, p in enumerate(parts):
        if i % 2 == 0:
            rx.append(re.escape(p))
        else:
            alts = sorted(holes[p]["alts"].keys(), key=len, reverse=True)
            if p in seen:
                rx.append("(?P=%s)" % p)
            else:
                seen.add(p)
                rx.append("(?P<%s>%s)" % (p, "|".join(re.escape(a) for a in alts)))
    m = re.fullmatch("".join(rx), actual)
    if m:
        return {k: holes[k]["alts"][v] for k, v in m.groupdict().items()}, ""
    # diagnostic: first position where the literal prefix stops matching
    pos = 0
    for i, p in enumerate(parts):
        if i % 2 == 0:
            if actual.startswith(p, pos):
                pos += len(p)
            else:
                k = 0
                while k < len(p) and pos + k < len(actual) and actual[pos + k] == p[k]:
                    k += 1
                return None, "differs near: ...%s" % actual[max(0, pos + k - 60):pos + k + 60]
        else:
            alts = sorted(holes[p]["alts"].keys(), key=len, reverse=True)
            for a in alts:
                if actual.startswith(a, pos):
                    pos += len(a)
                    break
            else:
                return None, "hole %s: unknown alternative near: ...%s" % (p, actual[pos:pos + 80])
    return None, "trailing text differs"


import glob as _glob

SCANS = [
    # process-wide mutable items reachable from a parse or from code generation
    ("shared_state",
     ["runtime/src/*.rs", "codegen/src/*.rs", "codegen/src/grammar/*.rs", "macro/src/*.rs"],
     r"\bstatic\s+(mut\s+)?[A-Za-z_]+\s*:|thread_local!|lazy_static|OnceCell|OnceLock|Atomic[A-Z]|Mutex|RwLock|RefCell|\bCell<|UnsafeCell",
     []),
    # order-dependent containers, clocks, environment, randomness
    ("ambient",
     ["runtime/src/*.rs", "codegen/src/*.rs", "codegen/src/grammar/mod.rs", "cli/src/*.rs", "macro/src/*.rs"],
     r"HashMap|HashSet|SystemTime|Instant::|std::env|env::var|rand::|thread_rng|getrandom|std::process::id|RandomState",
     [("codegen/src/sequence.rs", "use std::collections::HashSet;"),
      ("codegen/src/sequence.rs", "let mut fields_seen = HashSet::<&str>::new();"),
      ("runtime/src/lib.rs", "use std::collections::HashMap;"),
      ("runtime/src/lib.rs", "pub type CacheEntries<'a, T> = HashMap<usize, ParseResult<'a, T>, BuildNoHashHasher<usize>>;")]),
]


def run_scans(repo):
    out = {}
    for (name, pats, rx, expected) in SCANS:
        found = []
        for pat in pats:
            for path in sorted(_glob.glob(os.path.join(repo, pat))):
                rel = os.path.relpath(path, repo)
                try:
                    text = strip_comments(open(path, encoding="utf-8").read())
                except OSError:
                    continue
                for line in text.split("\n"):
                    if re.search(rx, line):
                        found.append((rel, re.sub(r"\s+", " ", line).strip()))
        out[name] = (sorted(set(found)) == sorted(set(expected)), found)
    return out


def render(repo):
    spec = load_holes()
    files = spec["files"]          # rel -> list of hole names
    holes = spec["holes"]          # name -> {type, alts:{text: coq}, expected: coq}
    records = spec["records"]      # record name -> {type, fields:{field: hole name or literal coq}}
    values = {}
    broken = []
    file_ok = {}
    for rel in files:
        vals, diag = match_file(repo, rel, holes)
        fid = re.sub(r"\W", "_", rel)
        if vals is None:
            file_ok[fid] = (False, rel, diag)
            broken.append(("file_" + fid, "%s does not match the text the model mirrors (%s)" % (rel, diag)))
            for h in files[rel]:
                values[h] = None
                broken.append((h, "in unrecognised file " + rel))
        else:
            file_ok[fid] = (True, rel, "")
            for h in files[rel]:
                if h not in vals:
                    values[h] = None
                    broken.append((h, "hole not present in template of " + rel))
                else:
                    values[h] = vals[h]
    out = ["(* GENERATED by tools/extract_facts.py from the Rust sources of the repository.",
           "   Do not edit: regenerated on every check run.  A fact whose source text was not",
           "   recognised has type `unrecognised` and breaks the theorems that use it. *)",
           "From PegV Require Import Utf8 State Terminals Fields Pretty Model.",
           "",
           "Inductive unrecognised := Unrecognised.",
           ""]
    for fid, (ok, rel, diag) in sorted(file_ok.items()):
        out.append("(* %s%s *)" % (rel, "" if ok else "  -- NOT RECOGNISED: " + comment_safe(diag)))
        if ok:
            out.append("Definition file_%s : bool := true." % fid)
        else:
            out.append("Definition file_%s : unrecognised := Unrecognised." % fid)
    out.append("")
    for name, (ok, found) in sorted(run_scans(repo).items()):
        if ok:
            out.append("Definition scan_%s : bool := true." % name)
        else:
            out.append("(* scan %s found: %s *)" % (name, comment_safe(repr(found))))
            out.append("Definition scan_%s : unrecognised := Unrecognised." % name)
            broken.append(("scan_" + name, "unexpected occurrences: %r" % (found,)))
    out.append("")
    for h in sorted(values):
        t = holes[h]["type"]
        if values[h] is None:
            out.append("Definition x_%s : unrecognised := Unrecognised." % h)
        else:
            out.append("Definition x_%s : %s := %s." % (h, t, values[h]))
        out.append("Definition x_%s_run : %s := %s." % (h, t, values[h] if values[h] is not None else holes[h]["expected"]))
    out.append("")
    for rname, r in records.items():
        used = set()
        for v in r["fields"].values():
            used.update(re.findall(r"\$(\w+)", v))
        body = "; ".join("%s := %s" % (f, re.sub(r"\$(\w+)", r"x_\1", v)) for f, v in r["fields"].items())
        body_run = "; ".join("%s := %s" % (f, re.sub(r"\$(\w+)", r"x_\1_run", v)) for f, v in r["fields"].items())
        if all(values.get(u) is not None for u in used):
            out.append("Definition %s : %s := {| %s |}." % (rname, r["type"], body))
        else:
            out.append("Definition %s : unrecognised := Unrecognised." % rname)
        out.append("Definition %s_run : %s := {| %s |}." % (rname, r["type"], body_run))
    out.append("")
    return "\n".join(out), broken


if __name__ == "__main__":
    import sys
    text, broken = render(sys.argv[1] if len(sys.argv) > 1 else "/repo")
    sys.stdout.write(text)
    for bname, why in broken:
        sys.stderr.write("BROKEN %s: %s\n" % (bname, why))
