"""Grammar texts for C15: valid grammars, grammars built to violate each
documented restriction (one or two violating rules spliced into a valid
grammar), character-level mutations of valid grammars, garbage, and the
classes recorded as known findings (identifier spellings, include cycles,
deep nesting).  Every choice derives from one PRNG seed."""
import random

import gen

SYMS = list("@:*;=|()[]{}<>'\"\\!&$.,+-#/ \n\tiax09_é😀")


def violating_rules(rnd, base_text):
    """-> list of (label, rule text, derives override or None)"""
    num = rnd.choice(["Num", "Ident"])
    other = "Ident" if num == "Num" else "Num"
    v = "V%d" % rnd.randint(0, 9)
    fld = rnd.choice(["f", "x1", "type", "a"])
    wrap = rnd.choice(["%s", "'a' %s 'b'", "[%s]", "{%s}", "(%s | 'q')", "'z' | %s"])
    cases = [
        ("neg-lookahead-fields", "%s = %s;" % (v, wrap % ("!(%s:%s)" % (fld, num))), None),
        ("neg-lookahead-fields", "%s = !{%s:%s} 'k';" % (v, fld, num), None),
        ("pos-lookahead-fields", "%s = %s;" % (v, wrap % ("&(%s:%s | 'q')" % (fld, num))), None),
        ("pos-lookahead-fields", "%s = &(>%sF) 'k';\n%sF = q:%s;" % (v, v, v, num), None),
        ("neg-lookahead-fields", "%s = !(&(%s:%s)) 'k';" % (v, fld, num), None),
        ("mix-override", "%s = @:%s %s:%s;" % (v, num, fld, other), None),
        ("mix-override", "%s = @:%s | %s:%s;" % (v, num, fld, other), None),
        ("mix-override", "%s = [@:%s] {%s:%s};" % (v, num, fld, other), None),
        ("mix-override", "%s = @:%s >%sF;\n%sF = %s:%s;" % (v, num, v, v, fld, other), None),
        ("mix-override", "@export %s = @:%s %s:%s;" % (v, num, fld, other), None),
        ("enum-override-arity", "%s = [@:%s | @:%s];" % (v, num, other), None),
        ("enum-override-arity", "%s = {@:%s | @:%s};" % (v, num, other), None),
        ("enum-override-arity", "%s = @:%s [@:%s];" % (v, num, other), None),
        ("enum-override-arity", "%s = @:%s | 'x' | @:%s;" % (v, num, other), None),
        ("enum-override-arity", "%s = {@:%s}+ | @:%s;" % (v, num, other), None),
        ("override-export", "@export %s = @:%s;" % (v, num), None),
        ("override-export", "@export %s = 'x' @:*%s | 'y';" % (v, num), None),
        ("override-position", "@position %s = @:%s;" % (v, num), None),
        ("override-export", "@position @export %s = [@:%s];" % (v, num), None),
        ("string-export", "@string @export %s = 'a';" % v, None),
        ("string-export", "@export @no_skip_ws @string %s = {'a'..'z'};" % v, None),
        ("memoize-no-clone", "@memoize %s = 'a';" % v, rnd.choice([["Debug"], [], ["Debug", "PartialEq"]])),
        ("memoize-no-clone", "@leftrec %s = l:*%s '+' | 'a';" % (v, v), rnd.choice([["Debug"], []])),
        ("non-ascii-insensitive", "%s = i'é';" % v, None),
        ("non-ascii-insensitive", "%s = 'a' i\"straße\" $;" % v, None),
        ("non-ascii-insensitive", "%s = {i'\\u00e9'};" % v, None),
        ("non-ascii-insensitive", "%s = !i'\\xe9' 'q';" % v, None),
        ("non-ascii-insensitive", "%s = i'a\\u{1F600}';" % v, None),
        ("invalid-codepoint", "%s = '\\u{D800}';" % v, None),
        ("invalid-codepoint", "%s = 'ab\\uDFFF';" % v, None),
        ("invalid-codepoint", "%s = [\"x\\U00110000\"];" % v, None),
        ("invalid-codepoint", "%s = 'a'..'\\u{DFFF}';" % v, None),
        ("invalid-codepoint", "%s = '\\u{d900}'..'z' | 'k';" % v, None),
        ("invalid-codepoint", "@char %s = 'a' | '\\u{D800}';" % v, None),
        ("invalid-codepoint", "@char %s = 'a'..'\\U00FFFFFF' | 'q';" % v, None),
        ("invalid-codepoint", "%s = i'\\u{D800}é';" % v, None),
        ("include-not-found", "%s = >Nope%d;" % (v, rnd.randint(0, 9)), None),
        ("include-not-found", "%s = 'a' [>Lc];" % v, None),
        ("include-not-found", "%s = {>XNum | 'q'};" % v, None),
        ("include-not-found", "%s = !(>char) 'q';" % v, None),
        ("position-variant", "@position %s = @:%sP | @:%sQ;\n@position %sP = 'p';\n%sQ = 'q';" % (v, v, v, v, v), None),
        ("position-variant", "@position %s = @:Lc | @:%sQ;\n@position %sQ = 'q';" % (v, v, v), None),
    ]
    if "Whitespace" not in base_text:
        cases += [("whitespace-skips", "Whitespace = {' ' | '\\n'};", None),
                  ("whitespace-skips", "@string Whitespace = {' '};", None)]
    return cases


def splice(rnd, base_text, rules):
    lines = [l for l in base_text.split("\n") if l.strip()]
    for r in rules:
        lines.insert(rnd.randint(0, len(lines)), r)
    return "\n".join(lines) + "\n"


def mutate_text(rnd, text):
    t = list(text)
    for _ in range(rnd.randint(1, 4)):
        if not t:
            break
        k = rnd.random()
        i = rnd.randrange(len(t))
        if k < 0.3:
            del t[i]
        elif k < 0.55:
            t.insert(i, rnd.choice(SYMS))
        elif k < 0.75:
            t[i] = rnd.choice(SYMS)
        elif k < 0.9:
            j = rnd.randrange(len(t))
            t[i], t[j] = t[j], t[i]
        else:
            j = min(len(t), i + rnd.randint(1, 12))
            del t[i:j]
    return "".join(t)


BAD_NAMES = ["self", "Self", "super", "0abc", "9", "1_x"]
FINE_NAMES = ["crate", "_", "__", "r", "state", "dyn", "async", "try", "union", "Option", "Ok"]


def identifier_cases(rnd):
    """(label, text, derives, ctx) — names the generator turns into identifiers"""
    out = []
    for n in BAD_NAMES + FINE_NAMES:
        bad = n in BAD_NAMES
        lab = "ident-bad" if bad else "ident-fine"
        out += [
            (lab, "@export %s = 'a';\n" % n, None, None),
            (lab, "@export A = %s:B;\nB = 'b';\n" % n, None, None),
            (lab, "@export A = x:%s;\n%s = 'b';\n" % (n, n), None, None),
            (lab, "@export A = 'x' %s;\n%s = 'b';\n" % (n, n), None, None),
            (lab, "@check(%s::f) @export A = 'a';\n" % n, None, None),
            (lab, "@check(crate::%s) @export A = 'a';\n" % n, None, None),
            (lab, "@export A = X;\n@extern(%s::f) X;\n" % n, None, None),
            (lab, "@export A = X;\n@extern(f -> %s::T) X;\n" % n, None, None),
            (lab, "@export A = X;\n@extern(f) %s;\n" % n, None, None) if False else (lab, "@export A = C;\n@char %s = 'a';\n@char C = 'c';\n" % n, None, None),
            (lab, "@export A = C;\n@char @check(%s::f) C = 'a';\n" % n, None, None),
            (lab, "@export A = C;\n@char C = 'a' | %s;\n%s = 'b';\n" % (n, n), None, None),
            (lab, "@string S = q:%s;\n%s = 'b';\n@export A = S;\n" % (n, n), None, None),
            (lab, "@string S = %s:B;\nB = 'b';\n@export A = S;\n" % n, None, None),
        ]
    # path segments are the only names the grammar of grammars lets contain non-ASCII characters; the model's
    # identifier alphabet is ASCII (any non-ASCII byte is taken as an identifier character, the Unicode XID tables
    # are not modelled): the compiler has to answer, the classes are compared for the ASCII part only
    for n in ("é", "😀crate", "chk😀lower", "→"):
        out += [("ident-nonascii", "@check(%s::f) @export A = 'a';\n" % n, None, None),
                ("ident-nonascii", "@export A = X;\n@extern(crate::%s) X;\n" % n, None, None)]
    for d in (["serde::Serialize"], ["Debug", ""], ["Vec<u8>"], ["0x"], ["self"], ["Debug", "Clone", "_"], ["Clone "]):
        out.append(("derive-odd", "@export A = 'a' b:B;\nB = 'b';\n", d, None))
    return out


def known_class_cases(rnd):
    out = [
        ("include-cycle", "@export A = >A;\n", None, None),
        ("include-cycle", "@export A = 'a' [>B];\nB = {>A};\n", None, None),
        ("include-cycle", "X = 'x';\n@export A = x:X (>B | 'q');\nB = !'z' >C;\nC = >A;\n", None, None),
        ("include-cycle", "@export A = 'a';\nD = !(>D);\n", None, None),
    ]
    for depth, (o, c) in ((3000, "()"), (4000, "[]"), (5000, "{}"), (20000, "()")):
        out.append(("deep-nesting", "@export A = %s'a'%s;\n" % (o * depth, c * depth), None, None))
    out.append(("deep-nesting", "@export A = %s'a';\n" % ("!" * 6000), None, None))
    for depth in (50, 200, 600):
        out.append(("nesting-ok", "@export A = %s'a'%s;\n" % ("(" * depth, ")" * depth), None, None))
    return out


def cases(seed, n_valid, n_violating, n_mutated, n_garbage):
    rnd = random.Random(seed * 2654435761 & 0xFFFFFFFF)
    out = []
    bases = []
    for i in range(max(n_valid, 8)):
        gg = gen.make(seed + 77, i, gen.Opts(p_ctx=0.0))
        bases.append(gg.text())
    for t in bases[:n_valid]:
        out.append(("valid", t, None, None))
    for i in range(n_violating):
        base = rnd.choice(bases)
        vr = violating_rules(rnd, base)
        k = 1 if rnd.random() < 0.8 else 2
        pick = [rnd.choice(vr) for _ in range(k)]
        # distinct rule names when two are spliced
        if k == 2 and pick[0][1].split(" =")[0].split()[-1] == pick[1][1].split(" =")[0].split()[-1]:
            pick = pick[:1]
        derives = None
        for p in pick:
            if p[2] is not None:
                derives = p[2]
        if derives is not None:
            base = base.replace("@memoize ", "").replace("@leftrec ", "") if False else base
        out.append(("violating:" + "+".join(p[0] for p in pick), splice(rnd, base, [p[1] for p in pick]), derives, None))
    for i in range(n_mutated):
        out.append(("mutated", mutate_text(rnd, rnd.choice(bases)), None, None))
    for i in range(n_garbage):
        k = rnd.random()
        if k < 0.5:
            out.append(("garbage", "".join(rnd.choice(SYMS) for _ in range(rnd.randint(0, 40))), None, None))
        else:
            toks = ["@export", "@string", "@char", "@extern(", "@check(", "A", "B", "=", ";", "'a'", "\"b\"", "'a'..'z'", "i'x'", "|", "(", ")", "[", "]", "{", "}", "+",
                    "!", "&", "$", ">", "@:", "x:", "x:*", "*", "char", "->", "::", "\\", "'\\", "#c\n"]
            out.append(("garbage", " ".join(rnd.choice(toks) for _ in range(rnd.randint(1, 25))), None, None))
    out += identifier_cases(rnd)
    out += known_class_cases(rnd)
    return out


if __name__ == "__main__":
    import sys
    for c in cases(int(sys.argv[1]) if len(sys.argv) > 1 else 1, 3, 12, 3, 3)[:30]:
        print("=== %s derives=%s ctx=%s\n%s" % (c[0], c[2], c[3], c[1][:600]))
