"""(Re)create tools/templates/*.tmpl from the *current* /repo sources and punch
the holes listed below.  Run by hand when the model is brought up to date with
a new revision of the sources — never by a check."""
import json
import os
import sys

sys.path.insert(0, os.path.dirname(os.path.abspath(__file__)))
import extract_facts as ef

REPO = sys.argv[1] if len(sys.argv) > 1 else "/repo"

FILES = [
    "runtime/src/state.rs", "runtime/src/builtin_parsers.rs", "runtime/src/choice_helper.rs",
    "runtime/src/error.rs", "runtime/src/parse_result.rs", "runtime/src/global.rs",
    "runtime/src/trace.rs", "runtime/src/peg_parser.rs",
    "codegen/src/choice.rs", "codegen/src/sequence.rs", "codegen/src/closure.rs",
    "codegen/src/optional.rs", "codegen/src/lookahead.rs", "codegen/src/field.rs",
    "codegen/src/string.rs", "codegen/src/eoi.rs", "codegen/src/include_rule.rs",
    "codegen/src/char_rule.rs", "codegen/src/extern_rule.rs", "codegen/src/misc.rs",
    "codegen/src/rule.rs", "codegen/src/common.rs", "codegen/src/grammar/mod.rs",
    "codegen/src/header.rs", "codegen/src/buildscript.rs", "codegen/build.rs",
    "cli/src/main.rs", "macro/src/lib.rs",
]

AR = {"Arity::One": "One", "Arity::Optional": "Optional", "Arity::Multiple": "Multiple"}

# (file, hole name, type, text before, current alternative, text after, {alt text: coq value}, expected coq value)
HOLES = [
    ("runtime/src/state.rs", "rec_le", "bool", "if farthest_error.position ", "<=", " error.position {",
     {"<=": "true", "<": "false"}, "true"),
    ("runtime/src/state.rs", "further_gt", "bool", "self.start_index ", ">", " other.start_index }",
     {">": "true", ">=": "false"}, "true"),
    ("runtime/src/builtin_parsers.rs", "lit_fast_is_ascii", "bool", "-> ParseResult<char> { ", "if c.is_ascii() {",
     " if state.is_empty() || state.s().as_bytes()[0] != c as u8",
     {"if c.is_ascii() {": "true", "if true {": "false"}, "true"),
    ("runtime/src/builtin_parsers.rs", "range_fast_both_ascii", "bool", "-> ParseResult<char> { ",
     "if from.is_ascii() && to.is_ascii() {", " if state.is_empty() { return Err(",
     {"if from.is_ascii() && to.is_ascii() {": "true", "if from.is_ascii() {": "false"}, "true"),
    ("runtime/src/error.rs", "pretty_iter_stop_ge", "bool", "if self.byte_offset ", ">", " self.source.bytes().len() { return None; }",
     {">=": "true", ">": "false"}, "false"),
    ("runtime/src/error.rs", "pretty_find_end_ge", "bool", "l.start_offset <= err.position && l.end_offset ", ">", " err.position)",
     {">=": "true", ">": "false"}, "false"),
    ("runtime/src/error.rs", "pretty_col_by_position", "bool", ".map(|(cp, _c)| cp) ",
     ".filter(|cp| *cp < err.position - target_line.start_offset) .count();", " let position = if let Some(f)",
     {".position(|cp| cp == err.position - target_line.start_offset) .unwrap_or(0);": "true",
      ".filter(|cp| *cp < err.position - target_line.start_offset) .count();": "false"}, "false"),
]
for (l, r, cur) in [("One", "One", "One"), ("One", "Optional", "Optional"), ("One", "Multiple", "Multiple"),
                    ("Optional", "One", "Optional"), ("Optional", "Optional", "Optional"), ("Optional", "Multiple", "Multiple"),
                    ("Multiple", "One", "Multiple"), ("Multiple", "Optional", "Multiple"), ("Multiple", "Multiple", "Multiple")]:
    HOLES.append(("codegen/src/choice.rs", "ca_%s_%s" % (l, r), "arity",
                  "(Arity::%s, Arity::%s) => " % (l, r), "Arity::" + cur, ",", AR, cur))
HOLES += [
    ("codegen/src/choice.rs", "choice_missing_one", "arity",
     "if field.arity == Arity::One && !new_fields.iter().any(|f| f.name == field.name) { field.arity = ",
     "Arity::Optional", "; }", AR, "Optional"),
    ("codegen/src/choice.rs", "choice_new_one", "arity",
     "all_fields.push(FieldDescriptor { arity: ", "Arity::Optional", ", ..new_field });", AR, "Optional"),
    ("codegen/src/optional.rs", "oa_One", "arity", "Arity::One => ", "Arity::Optional", ",", AR, "Optional"),
    ("codegen/src/optional.rs", "oa_Optional", "arity", "Arity::Optional => ", "Arity::Optional", ",", AR, "Optional"),
    ("codegen/src/optional.rs", "oa_Multiple", "arity", "Arity::Multiple => ", "Arity::Multiple", ",", AR, "Multiple"),
    ("codegen/src/closure.rs", "clo_all", "arity", "for value in &mut fields { value.arity = ", "Arity::Multiple", "; }", AR, "Multiple"),
    ("codegen/src/sequence.rs", "seq_dup", "arity", "original.arity = ", "Arity::Multiple", "; combine_field_types", AR, "Multiple"),
    ("codegen/src/rule.rs", "memo_closed", "bool", "} else { let result = ", "(|| { #parse_body })()", "; global.cache.#cache_entry_ident.insert(cache_key, result.clone());",
     {"(|| { #parse_body })()": "true", "{ #parse_body }": "false"}, "true"),
    ("codegen/src/rule.rs", "leftrec_closed", "bool", "let state = state.clone(); let new_result = ", "(|| { #parse_body })()", "; match (new_result, &best_result)",
     {"(|| { #parse_body })()": "true", "{ #parse_body }": "false"}, "true"),
    ("codegen/src/string.rs", "insens_guard", "bool", "if self.insensitive.is_some() { ",
     'if !literal.is_ascii() { bail!("Case insensitive matching only works for ascii strings. ({literal:?} was not ascii)"); } ',
     "let literal = literal.to_ascii_lowercase();",
     {'if !literal.is_ascii() { bail!("Case insensitive matching only works for ascii strings. ({literal:?} was not ascii)"); } ': "true",
      "": "false"}, "true"),
    ("codegen/src/rule.rs", "leftrec_needs_clone", "bool", "must be @no_skip_ws to prevent recursion\"); } if ",
     "(flags.memoize || flags.left_recursive)", " && !settings.derives.contains(&\"Clone\".into()) {",
     {"flags.memoize": "false", "(flags.memoize || flags.left_recursive)": "true"}, "true"),
    ("codegen/src/rule.rs", "pos_variants_checked", "bool", "self.check_flags(&flags, &settings)?; ",
     "self.check_position_variants(&flags, &fields, grammar)?; ", "let name = &self.name;",
     {"self.check_position_variants(&flags, &fields, grammar)?; ": "true", "": "false"}, "true"),
    ("codegen/src/common.rs", "raw_kw_guard", "bool", "pub const RUST_KEYWORDS: ", '[&str; 47] = [ "as", "break", "const", "continue", "else", "enum", "extern", "false", "fn", "for", "if", "impl", "in", "let", "loop", "match", "mod", "move", "mut", "pub", "ref", "return", "static", "struct", "trait", "true", "type", "unsafe", "use", "where", "while", "async", "await", "dyn", "abstract", "become", "box", "do", "final", "macro", "override", "priv", "typeof", "unsized", "virtual", "yield", "try", ];', "",
     {'[&str; 47] = [ "as", "break", "const", "continue", "else", "enum", "extern", "false", "fn", "for", "if", "impl", "in", "let", "loop", "match", "mod", "move", "mut", "pub", "ref", "return", "static", "struct", "trait", "true", "type", "unsafe", "use", "where", "while", "async", "await", "dyn", "abstract", "become", "box", "do", "final", "macro", "override", "priv", "typeof", "unsized", "virtual", "yield", "try", ];': "true", '[&str; 50] = [ "as", "break", "const", "continue", "else", "enum", "extern", "false", "fn", "for", "if", "impl", "in", "let", "loop", "match", "mod", "move", "mut", "pub", "ref", "return", "self", "Self", "static", "struct", "super", "trait", "true", "type", "unsafe", "use", "where", "while", "async", "await", "dyn", "abstract", "become", "box", "do", "final", "macro", "override", "priv", "typeof", "unsized", "virtual", "yield", "try", ];': "false"}, "true"),
    ("codegen/src/grammar/mod.rs", "idents_checked", "bool", "", "self.check_identifiers(settings)?; ", "",
     {"self.check_identifiers(settings)?; ": "true", "": "false"}, "true"),
    ("codegen/src/grammar/mod.rs", "cycles_checked", "bool", "", "self.check_include_cycles()?; ", "let mut all_types = TokenStream::new();",
     {"self.check_include_cycles()?; ": "true", "": "false"}, "true"),
    ("cli/src/main.rs", "cli_exit_nonzero", "bool", 'println!("{}: {}", "Error".red().bold(), e)', "; std::process::exit(1);", " } }",
     {"; std::process::exit(1);": "true", "": "false", ";": "false"}, "true"),
]

CA = ("fun a b => match a, b with "
      + " | ".join("%s, %s => $ca_%s_%s" % (l, r, l, r) for l in ("One", "Optional", "Multiple") for r in ("One", "Optional", "Multiple"))
      + " end")
RECORDS = {
    "scfg": {"type": "state_cfg", "fields": {"rec_le": "$rec_le", "further_gt": "$further_gt"}},
    "tcfg": {"type": "term_cfg", "fields": {"lit_fast_is_ascii": "$lit_fast_is_ascii",
                                             "range_fast_both_ascii": "$range_fast_both_ascii",
                                             "ilit_lowercases_input": "true"}},
    "pretty": {"type": "pretty_cfg", "fields": {"iter_stop_ge": "$pretty_iter_stop_ge", "find_end_ge": "$pretty_find_end_ge",
                                                 "col_by_position": "$pretty_col_by_position"}},
    "rcfg": {"type": "rule_cfg", "fields": {"memo_closed": "$memo_closed", "leftrec_closed": "$leftrec_closed",
                                             "insens_guard": "$insens_guard"}},
    "fcfg": {"type": "fields_cfg", "fields": {
        "combine_arity": CA,
        "opt_arity": "fun a => match a with One => $oa_One | Optional => $oa_Optional | Multiple => $oa_Multiple end",
        "clo_arity": "fun _ => $clo_all",
        "seq_dup_arity": "$seq_dup",
        "choice_missing": "fun a => match a with One => $choice_missing_one | x => x end",
        "choice_new": "fun a => match a with One => $choice_new_one | x => x end"}},
}

files = {f: [] for f in FILES}
holes = {}
texts = {}
for f in FILES:
    texts[f] = ef.normalise(open(os.path.join(REPO, f), encoding="utf-8").read())
for (f, name, typ, before, cur, after, alts, expected) in HOLES:
    needle = before + cur + after
    n = texts[f].count(needle)
    if n != 1:
        raise SystemExit("hole %s: anchor occurs %d times in %s" % (name, n, f))
    texts[f] = texts[f].replace(needle, before + ef.L + name + ef.Rr + after)
    files[f].append(name)
    holes[name] = {"type": typ, "alts": alts, "expected": expected}
for f in FILES:
    with open(os.path.join(ef.TDIR, ef.tname(f)), "w", encoding="utf-8") as fh:
        fh.write(texts[f] + "\n")
with open(os.path.join(ef.TDIR, "holes.json"), "w", encoding="utf-8") as fh:
    json.dump({"files": files, "holes": holes, "records": RECORDS}, fh, indent=1, ensure_ascii=False)
print("templates written:", len(FILES), "files,", len(holes), "holes")
