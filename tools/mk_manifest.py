"""Writes /verif/MANIFEST.json from the table below."""
import json
import os

VERIF = os.path.dirname(os.path.dirname(os.path.abspath(__file__)))
props = [json.loads(l) for l in open(os.path.join(VERIF, "properties.jsonl"))]

TB = ("Trusted: Coq 8.16.1 kernel; no axioms (Print Assumptions: closed under the global context); the template "
      "translator (tools/extract_facts.py: every modelled Rust file must match the text the model mirrors, decision "
      "points read from holes) ; OCaml extraction (ExtrOcamlBasic) + driver used for the correspondence only; the "
      "harness (real front end, real generator, real generated code compiled with the hook on); rustc/std. ")

CLAIMS = {
 "C01": dict(
  category="proof",
  text="Coq theorems C01_conform / C01_converse: for every grammar without @memoize/@leftrec rules (C05/C07 cover those), pure check/extern oracles, every rule, input and fuel, the model M of the generated parser (one combinator per code template + the runtime model, decision points regenerated from the source) and the PEG specification S (doc/syntax.md semantics over characters) return the same verdict with the same consumed byte prefix and value; C01_terminals: each byte-level matcher accepts exactly the character-level language; C01_literals. M is tied to the code by differential execution of real generated parsers (tree, error, complete tracer callback sequence, hook log) and the implementation is checked directly against the extracted S. Termination (well-formed => exists fuel) is not yet a theorem: partial.",
  note=TB + "Modelled, not verified: the Rust semantics of the emitted code (M mirrors the quote! templates by reading; tied by execution). Theorems are stated for all fuel values ('if the run returns'); the termination clause of the property is covered only by the watchdog of the harness so far.",
  technique="Coq simulation proof (model of generated parser vs PEG spec) + source-fact translator + differential correspondence"),
 "C02": dict(
  category="proof",
  text="Coq theorems C02_tree / C02_subexpressions: whenever the model of the generated parser succeeds, the value it assembled piecewise through the templates (post-processing, sequence destructure/extend, choice conversion and defaults, optional defaults, closure accumulation, struct/override/@string assembly) equals the value the specification builds from the ordered field-match events of the successful path grouped by declared arity; for every sub-expression the events mention only its own field names. Tied by the correspondence stream; oracle = implementation tree vs extracted S tree.",
  note=TB + "Stated for grammars without memo/leftrec and pure hooks (memoized grammars: C05). Box is invisible in Debug and is not compared.",
  technique="Coq simulation proof with value relation (templates' assembly = shape of events) + differential correspondence"),
 "C10": dict(
  category="proof",
  text="Coq theorem C10_furthest: without memoized/left-recursive rules a reported error is the furthest-latest entry of the specification's log of failed attempts (lookahead scoping as the property states); C10_record_error pins the <= of record_error. Oracle on the implementation: position inside the input on a char boundary, never the sentinel, equal to the furthest-latest attempt of the extracted S. The 'really failed during that parse' clause for memoized/left-recursive grammars is checked by the oracle only (no theorem yet): partial.",
  note=TB,
  technique="Coq simulation proof (farthest error = fold of the failure log) + differential correspondence"),
 "C11": dict(
  category="proof",
  text="Coq theorem C11_pretty: for every text and every position 0..=len the model of PrettyParseError::from_parse_error (decision points regenerated from runtime/src/error.rs on every run) returns exactly the line, column and printed line the property defines and never panics; the model is tied to the real function by an exhaustive small-scope differential run (all texts of <=4/<=6 characters over a 5-character alphabet incl. multi-byte and newline, all boundary positions).",
  note=TB + "std's char_indices is modelled as 'offsets of non-continuation bytes'; colours off.",
  technique="Coq proof over a byte-level model with source-extracted configuration + exhaustive differential correspondence"),
}

checks = []
for pid, c in CLAIMS.items():
    checks.append({
        "property_id": pid,
        "quick_cmd": "./check %s --tier quick" % pid,
        "thorough_cmd": "./check %s --tier thorough" % pid,
        "evidence_file": "/verif/evidence/%s.json" % pid,
        "replay_cmd_template": "./check %s --replay {path}" % pid,
        "engine": "coq-model+correspondence",
        "level_claimed": {"category": c["category"], "text": c["text"], "design_ref": "DESIGN.md section 6, " + pid},
        "level_note": c["note"],
        "technique": c["technique"],
    })
na = [{"property_id": p["id"], "reason": "not yet claimed in this revision of /verif: its check is still being built (DESIGN.md section 8 staging); nothing about the technique rules it out"}
      for p in props if p["id"] not in CLAIMS]
m = {
    "version": 1,
    "setup_cmd": "./setup",
    "hooks": {"guard": "peginator_verif",
              "enable": "RUSTFLAGS=\"--cfg peginator_verif\" (set by lib/vp.py and lib/genrun.py for every harness build)",
              "baseline_off_cmd": "cd /repo && cargo test --workspace --no-fail-fast --offline",
              "source_commits": ["5c76090"], "add_only": True},
    "engines": [{"name": "coq-model+correspondence", "path": "/verif/check", "serves_properties": sorted(CLAIMS),
                 "kind_free_text": "Rocq/Coq 8.16 proofs about an executable Gallina model of the generated parsers and the runtime; model tied to /repo by a template translator (Extracted.v) and by differential execution of real generated parsers against the extracted model and specification"}],
    "checks": checks,
    "not_applicable": na,
    "notes": "See DESIGN.md. known_findings.json lists genuine defects (open = recorded, fixed = repaired by a fix: commit in /repo).",
}
json.dump(m, open(os.path.join(VERIF, "MANIFEST.json"), "w"), indent=1)
print("claimed:", sorted(CLAIMS))
