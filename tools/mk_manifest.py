"""Writes /verif/MANIFEST.json from the table below."""
import json
import os

VERIF = os.path.dirname(os.path.dirname(os.path.abspath(__file__)))
props = [json.loads(l) for l in open(os.path.join(VERIF, "properties.jsonl"))]

TB = ("Trusted: Coq 8.16.1 kernel; no axioms (Print Assumptions: closed under the global context); the template "
      "translator (tools/extract_facts.py: every modelled Rust file must match the text the model mirrors, decision "
      "points read from holes) ; OCaml extraction (ExtrOcamlBasic) + driver used for the correspondence only; the "
      "harness (real front end, real generator, real generated code compiled with the hook on); rustc/std. ")

CLAIMS = {
 "C01": dict(
  category="proof",
  text="Coq theorems C01_conform / C01_converse: for every grammar without @memoize/@leftrec rules (C05/C07 cover those), pure check/extern oracles, every rule, input and fuel, the model M of the generated parser (one combinator per code template + the runtime model, decision points regenerated from the source) and the PEG specification S (doc/syntax.md semantics over characters) return the same verdict with the same consumed byte prefix and value; C01_terminals: each byte-level matcher accepts exactly the character-level language; C01_literals. M is tied to the code by differential execution of real generated parsers (tree, error, complete tracer callback sequence, hook log) and the implementation is checked directly against the extracted S. Termination (well-formed => exists fuel) is not yet a theorem: partial.",
  note="C01_memoized extends the agreement with the PEG specification (acceptance, tree, end offset; any pair of recursion bounds) to grammars with any subset of rules marked @memoize and no @leftrec rule, through MemoEq (memoized model ~ unmarked model) and MemoSpec (the specification ignores the marker). " + TB + "Modelled, not verified: the Rust semantics of the emitted code (M mirrors the quote! templates by reading; tied by execution). Theorems are stated for all fuel values ('if the run returns'); the termination clause of the property is covered only by the watchdog of the harness so far.",
  technique="Coq simulation proof (model of generated parser vs PEG spec) + source-fact translator + differential correspondence"),
 "C02": dict(
  category="proof",
  text="Coq theorems C02_tree / C02_subexpressions: whenever the model of the generated parser succeeds, the value it assembled piecewise through the templates (post-processing, sequence destructure/extend, choice conversion and defaults, optional defaults, closure accumulation, struct/override/@string assembly) equals the value the specification builds from the ordered field-match events of the successful path grouped by declared arity; for every sub-expression the events mention only its own field names. Tied by the correspondence stream; oracle = implementation tree vs extracted S tree.",
  note=TB + "Stated for grammars without memo/leftrec and pure hooks (memoized grammars: C05). Box is invisible in Debug and is not compared.",
  technique="Coq simulation proof with value relation (templates' assembly = shape of events) + differential correspondence"),
 "C03": dict(
  category="proof",
  text="Coq: C03_lattice (the nine-row choice table, the optional and closure tables and the sequence/choice rules regenerated from the source are the documented join One < Optional < Multiple), C03_arity_sound (for every grammar, expression and input, on the successful path of the PEG semantics every field-match event belongs to a declared field, its rule type is in the declared type set of that field - so a generated enum has a variant for it - a field declared plain is matched exactly once and an Option field at most once; proved by induction over the specification's evaluation, unbounded), C03_values_fit (hence the value of every rule match can be stored in the declared type: the arity-mismatch stuck state is unreachable), C03_templates_agree_with_declarations (the model of the generated parser never reaches a shape mismatch in the value plumbing of the templates - missing field in an arm, One field without value, extend on a non-Vec - for every plain grammar, input and bound; the simulation now proves it instead of tolerating it), C03_field_type_single / C03_field_type_enum / C03_rule_kinds (the declaration emitters: arity decides Option/Vec, `*` decides Box, several types decide the generated enum, `char` is the built-in; @string, field-less, @position, override-only rules). Correspondence: the declarations the compiler model computes == the declarations read back from the token text of the real generator, for every stream grammar and derive set. Oracle: rustc compiles every accepted grammar under #![forbid(unsafe_code)] together with exact-type assertions generated from the MODEL's declarations (exhaustive destructuring, exhaustive match, `let _: &T`), including Rust-keyword rule and field names and custom derive sets; a committed corpus (corpus/rustc) pins the known failing shapes. Partial: that rustc accepts the parse functions is observed, not proved.",
  note=TB + "Quantifier as given: recursive type cycles broken by * or Vec; names not colliding with prelude or peginator items (the generator's own locals state, global, iterations, __result count as peginator items). Two open known findings (field named like a unit-struct rule; @string rule with a multi-type field), two fixed.",
  technique="Coq proof of arity soundness over the PEG specification + table facts regenerated from the source + compiler model vs generated declarations + rustc with model-generated exact-type assertions"),
 "C04": dict(
  category="proof",
  text="Coq theorem C04_all (instance of the generic invariant theorem Inv.m_invariant, proved for every grammar incl. @memoize/@leftrec, any decision-point configuration of record_error/arity tables, arbitrary stateful hooks whose extern functions return a boundary length): on valid UTF-8 input the model never reaches the runtime's panic sites (index, advance overrun, non-boundary advance = the cfg(peginator_verif) assertion), every state is anchored at a char boundary of the input with valid prefix and suffix, every reported error position is such a boundary (C04_boundary, C04_errpos); C04_guard / C04_guard_refuted: the compile-time ASCII guard of i-literals is present and load-bearing. The nine unchecked advance call sites are modelled one-to-one in Terminals.v and proved in TerminalsOk.v. Partial: stack exhaustion and the memory safety of get_unchecked itself are runtime facts; the theorem proves the precondition the unsafe block relies on.",
  note=TB + "Hook on in every correspondence run (RUSTFLAGS --cfg peginator_verif). `slice_until` (safe slicing) is modelled as total; its offsets are anchored states' offsets, hence boundaries.",
  technique="Coq generic invariant theorem instantiated with UTF-8 anchoring + byte-level proofs of all matchers + differential runs with the boundary assertion"),
 "C05": dict(
  category="proof",
  text="Coq: C05_transparent (MemoEq.memoize_transparent: for every grammar without @leftrec rules, ANY subset of rules marked @memoize, every setting of the source's decision points, hooks - possibly stateful - whose results do not depend on the user state, every input, exported rule and pair of recursion bounds: the model of the generated parser and the model of the parser of the same grammar with all @memoize markers removed, whenever both return, accept alike, return the same tree and stop at the same offset; only the error detail may differ. Proved by a relational walk over every code template carrying the invariant `each cache entry is what the unmarked parser computes for that rule at that offset`), C05_any_two_markings (two markings of one grammar agree with the unmarked grammar, hence with each other), C05_hit / C05_miss / C05_stores_what_it_returns (wrapper level, all grammars), C05_fresh (every parse call starts from the empty cache), C05_unmarked_reference (the unmarked grammar is read as the PEG specification). Oracle: each generated grammar with @memoize on a random subset of rules vs the same text without markers - same acceptance and tree on every shared input; reverse-order reruns in one process give identical results.",
  note=TB + "Grammars with @leftrec rules are outside C05_transparent (the property excludes rules on a left-recursive cycle); they are covered by the twin oracle only. `Whenever both return`: the theorem is about results for any pair of fuel values, not about termination.",
  technique="Coq relational proof over all templates (memoized model vs unmarked model, cache-soundness invariant) + metamorphic marked/unmarked differential runs + model correspondence"),
 "C06": dict(
  category="proof",
  text="Coq (every grammar, stateful hooks): C06_entry_after_return (after a memoized call returned Ok or Err the entry exists, because the wrapper is closed around early exits — fact memo_closed regenerated from rule.rs), C06_no_evaluation_with_entry (instance of the generic invariant: entries are never removed and every body evaluation logged during any evaluation is for a key without entry at its start), C06_hit_evaluates_nothing, C06_refuted_unwrapped (with the wrapper open the failing result is not stored: the pre-fix behaviour is refuted by a witness). Hence two evaluations of one (rule, offset) can only be nested (re-entrance), which the known finding c06:reentrant-through-leftrec exhibits on the real code. Oracle: per-(rule, offset) body evaluations counted from the implementation's own trace and by an extern probe at the start of memoized bodies; the model's ghost evaluation log must equal the count seen in the implementation.",
  note=TB + "Partial: absence of re-entrance for grammars whose memoized rules are not on a left-recursive cycle is not a theorem.",
  technique="Coq invariant proof (cache monotone, evaluations only on a miss) + trace/probe counting on the generated parsers + model correspondence"),
 "C07": dict(
  category="proof",
  text="Coq: C07_grow (the loop's defining equation as generated), C07_bound (with the strict progress test `is_further_than = >`, fact further_gt regenerated from state.rs, and body evaluations that return, the loop returns after at most input-length+3 turns: no fuel exhaustion), C07_fuel_monotone (a result obtained with some fuel is obtained with any larger fuel: results do not depend on the recursion bound), leftrec_closed fact (failing seed is stored / sentinel never escapes, shared with C10). Partial: the closed form `b x*` for rules of the shape A = A x | b is not yet a theorem; decided by the oracle: left-nesting of every left-recursive node, the exact number of growth steps on the directed corpus grammar, watchdog on every parse, and full trace correspondence (loop turns, cache hits) with the model.",
  note=TB,
  technique="Coq termination/monotonicity proofs of the grow loop + differential correspondence incl. loop-turn traces + reference oracle"),
 "C08": dict(
  category="proof",
  text="The specification S skips whitespace exactly at the documented points (before every field/rule reference, literal, range and $ of a skipping rule; included bodies under the includer's flag; callee rules under their own flag; the grammar's Whitespace rule shadowing the built-in). Coq: C08_points (M agrees with S on every consumed byte, by the simulation), C08_noskip, C08_callee, C08_builtin / C08_ws_set / C08_longest (the built-in skipper consumes the longest prefix over exactly the five ASCII whitespace bytes, proved over UTF-8 bytes). Oracle: implementation vs extracted S on inputs with whitespace and near misses (U+000B, U+00A0, U+2003) incl. user-defined Whitespace.",
  note=TB + "Grammars without memo/leftrec and pure hooks for the simulation part.",
  technique="Coq simulation proof + byte-level proof of the built-in skipper + differential correspondence"),
 "C09": dict(
  category="proof",
  text="Coq: C09_span (the value M returns is S's value, whose @position nodes carry (offset at rule entry after the caller's skip, offset at exit); entry point starts at 0), C09_nest (in S every recorded range lies inside the span of the enclosing match with start<=end, successive field matches occupy successive non-overlapping stretches), C09_own, C09_string_slice. Oracle on implementation trees: ranges on char boundaries inside the input, nested in the enclosing range, Vec elements ordered, root at 0, @string @position string == slice, tree == S tree.",
  note=TB + "Positions of values produced by user extern functions are assumed absent (hypothesis of C09_nest). Memoized/left-recursive grammars are covered by the oracle only.",
  technique="Coq proof over the specification (span nesting/ordering) + simulation + differential correspondence"),
 "C12": dict(
  category="proof",
  text="Coq: C12_escapes / C12_simple_escapes (for every Unicode scalar value and every applicable escape form \\xXX, \\uXXXX, \\U00XXXXXX, \\u{X..} with 1-6 digits, any hex case: decoding the spelled item yields the character; invalid code points yield an error), C12_directives (flags independent of directive order, @checks collected in order), C12_frontend (the AST of grammar.ebnf, regenerated on every run through the shipped front end, has no memo/leftrec rule, hence by the simulation the model of its generated parser reads every text exactly as the PEG specification reads it under grammar.ebnf). Partial: the printer/parser round trip for all layouts (C12_layout) is not a theorem; it is covered by the oracles: front-end AST == the AST a text was printed from (modulo redundant groups and escape spelling), one AST under several layouts reads identically, front end == extracted S under grammar.ebnf, front end == extracted M on the grammar.ebnf AST.",
  note=TB + "The doc/syntax.md reading is formalised by grammar.ebnf itself plus the generator's printer.",
  technique="Coq proofs of escape decoding and directive collection + the front end as an instance of the simulation + layout/AST differential oracles"),
 "C13": dict(
  category="proof",
  text="Coq: C13_decl (get_fields of `>R` = get_fields of the group of R's body, any fuel/tables), C13_run (the generated code for the include IS the generated code for the group of the body: equal results, trees, positions, farthest error, trace, cache and user state for any sub-evaluators, i.e. also with memo/leftrec and stateful hooks), C13_spec, C13_missing. Whole-grammar substitution (C13_subst) is not yet a theorem: partial. Oracle (metamorphic, no model): each generated grammar with includes vs its textual inlining — identical public type declarations, identical results on shared inputs.",
  note=TB,
  technique="Coq proof (definitional equality of the include and group templates) + metamorphic differential testing"),
 "C14": dict(
  category="proof",
  text="Coq: C14_checks_spec (a rule with checks matches iff body matches and every check is true on the produced value, first failure wins), C14_conform (M = S with checks/externs as pure oracles: verdict, value passed to checks, consumed bytes, error), C14_run_checks (for arbitrary stateful hooks: directive order, stop at first false, ordinary Err at the body's end state), C14_extern (extern receives exactly the remaining input and the user state; Ok((v,n)) yields v and advances n through the checked advance). Correspondence: hook invocation logs and results equal the model's, with and without a user context.",
  note=TB + "User functions are oracles; the harness ships a fixed library with Gallina twins (Hooks.v).",
  technique="Coq simulation proof + wrapper-level lemmas + differential correspondence of hook-call logs"),
 "C15": dict(
  category="proof",
  text="Coq, about the compiler model (Compile.v: get_fields, check_flags, the per-rule error order, literal/range decoding in generation order, char and extern rules): C15_terminates (if a rank decreasing along every include exists, a fuel bound computed from the grammar suffices for every rule: the recursion over includes is bounded and the answer is code or an error), C15_never_overflows (with the include-cycle check the compiler now makes first - fact cycles_checked - NO hypothesis on the grammar is left: for every grammar with distinct rule names a fuel bound computed from the grammar suffices; proved through acyclic_ranked: no chain of includes longer than the number of rules => the include depth is a rank), C15_cycles_are_rejected, C15_bad_identifiers_are_rejected (fact idents_checked), C15_cycle_overflows_unchecked / C15_cycle_is_not_ranked (without the check an include cycle diverges for every fuel: the repaired defect), C15_accepted_rules_respect_the_restrictions (whenever a rule is accepted, none of the documented restrictions is broken anywhere in its body, at any depth and through any chain of includes: fields in lookaheads, missing/@char/@extern includes, invalid code points, non-ASCII i-literals, @string+@export, skipping Whitespace, @memoize/@leftrec without Clone, @export/@position on a plain override, multi-type @: outside arity One, mixing @: with named fields), C15_include_resolves_only_normal_rules, C15_invalid_code_points, C15_templates_never_panic (the panic sites inside the code templates - the two expects of field.rs, choice.rs `Outer field cannot be One`, the sequence.rs arity assert - are unreachable for every grammar, at any depth, through includes). Correspondence: ~900 (quick) grammar texts - valid, built to violate each restriction (one or two violating rules spliced in), character mutations, garbage, identifier spellings, include cycles, deep nesting - each compiled in its own process; outcome, failing rule, error class and payload equal the model's. Oracle: no panic/abort/hang outside the four classes recorded as known findings; peginator-cli exit status, Compile::run and run_exit_on_error report every failure class.",
  note=TB + "Identifier construction, derive names and include cycles panicked / overflowed the stack on the pinned tree: repaired by four fix: commits (f4a0a90, 1eb168c, f98b422, 6852e65). Deep nesting (> ~1500 levels) still overflows the stack of the recursive-descent front end: one open known finding. The user context type is configured through an API call outside Grammar::generate_code and is not part of the quantifier.",
  technique="Coq proofs about a total compiler model (termination under well-founded includes, restrictions imply rejection) + per-process differential runs against the real front end and generator + exit-status checks of the tools"),
 "C16": dict(
  category="proof",
  text="Model-level theorems (thin; the tie carries most of the weight): C16_types_sorted / C16_types_canonical (the only order-relevant container of the generator, the per-field type set, is kept strictly sorted by type name, so the emitted enum variants depend only on the set of types), C16_routes (build-script output = header + prefix + the one generate_code output), C16_facts (the translator's scan for HashMap/HashSet/clock/environment/randomness in codegen, cli, macro and runtime finds exactly the known occurrences: a HashSet used for membership only in sequence.rs and the parse cache; all modelled files match their templates). Oracle: byte equality of the code from the library call in 5 fresh processes with different environments, the peginator-cli binary, Compile::run (after header and prefix); the peginate! route is compiled and run and must behave like the parser built from the library output. Partial: that the Rust code has no other hidden input is established by the scan and the oracle, not by a theorem.",
  note=TB,
  technique="Coq lemmas on canonical ordered containers + source scan facts + byte-level differential runs across routes and processes"),
 "C17": dict(
  category="translation_validation",
  text="Re-bootstrapping on every run: stage 2 (the tree's own generator on grammar.ebnf), passed through rustfmt as bootstrap.sh does, is byte-identical to the shipped codegen/src/grammar/generated.rs after the header (identical programs agree on every text, valid or not - no sampling involved); the header CRC equals the CRC of the current grammar.ebnf; stage 3 (a generator rebuilt around stage 2 in a scratch copy) reproduces stage 2. If the texts differ, both front ends are compared on grammar texts. Coq side: C17_instance / C17_fields_ok - the grammar of grammars (AST regenerated through the shipped front end) is an instance of the general theorems.",
  note=TB + "rustfmt (1.9.0) is trusted to be deterministic and semantics-preserving; cargo/rustc build the stage-3 generator.",
  technique="Translation validation by re-bootstrapping (stage 2 = shipped, stage 3 = stage 2) + Coq instance lemma"),
 "C18": dict(
  category="proof",
  text="Coq (BuildScript.v: Compile::run over an abstract file system with header/compile/rustfmt as parameters): C18_failed_run / C18_unreadable / C18_invalid (a failing run returns Err and leaves destination and write count untouched), C18_idempotent (an up-to-date destination is not rewritten), C18_ok, C18_fresh_partial (freshness provided the header+prefix test cannot be passed by a destination produced from another (grammar, prefix)), C18_fresh_refuted (for EVERY header/compile function: shrinking the prefix to a proper prefix of the old one leaves a stale destination) - the unconditional property is false, recorded as known findings (prefix shrink, CRC-32 collision). Correspondence: random histories executed with the real Compile in temp directories (file / explicit destination / directory mode) vs the extracted model instantiated with the real header and generated code; oracle: the freshness property itself.",
  note=TB + "The file system is a map from paths to contents; rustfmt (format()) is not exercised in the differential runs; mtime is observed through content change only.",
  technique="Coq state-machine proof + refutation theorem + differential histories against the real Compile"),
 "C19": dict(
  category="proof",
  text="Coq theorems C19_tracer_independent (TraceFrame.frame: for every grammar, stateful hooks, every setting of the decision points and fuel, two runs whose global states differ only in what the tracer has been told return the same result and leave cache, user state and ghost logs equal: the tracer cannot influence the parse), C19_balanced / C19_every_call (instance of Inv.m_invariant; every grammar incl. memoized and left-recursive rules, failing checks, externs, any hooks, any decision-point configuration): the tracer callback sequence of a returning parse is balanced (each print_trace_start followed by exactly one matching print_trace_result; running depth never below zero, zero at the end), a non-returning run produced a prefix of one. Correspondence: the recording tracer's sequence equals the model's log exactly on every stream case. Oracle: balance of the implementation's own sequence; NoopTracer vs recording tracer vs the real IndentedTracer (debug build, overflow checks) return the same result. Partial: 'the tracer log is write-only' (C19_transparent) is not yet a theorem about the model; it is covered by the oracle.",
  note=TB,
  technique="Coq generic invariant theorem instantiated with trace balance + exact trace correspondence"),
 "C20": dict(
  category="proof",
  text="Model-level theorems (thin; the tie carries most of the weight): C20_pure / C20_fresh_cache (every parse call starts from a fresh state and a fresh ParseGlobal - empty cache, new tracer - so a sequence of calls returns the list of single-call results), C20_interleave / C20_schedule_irrelevant (parses acting on disjoint private components: every interleaving projects to each parse's sequential run), C20_facts (the translator's scan finds no static, thread_local, lazy_static, OnceCell, atomic, Mutex, RefCell or Cell in the runtime, the generator templates or the macro; grammar/mod.rs builds the ParseGlobal per call). Oracle: 16 threads x 3 repetitions parse permuted input sets on memoized / left-recursive / hook-using grammars and must reproduce the sequential results. Partial: real schedules, the memory model and data races are runtime behaviour a Gallina model cannot exhibit.",
  note=TB,
  technique="Coq interleaving lemma over independent state machines + source scan facts + concurrent differential runs"),
 "C10": dict(
  category="proof",
  text="Coq theorem C10_furthest: without memoized/left-recursive rules a reported error is the furthest-latest entry of the specification's log of failed attempts (lookahead scoping as the property states); C10_record_error pins the <= of record_error. Oracle on the implementation: position inside the input on a char boundary, never the sentinel, equal to the furthest-latest attempt of the extracted S. C10_real (instance of the generic invariant theorem over the ghost log of failed attempts): for EVERY grammar, memoized and left-recursive rules included, arbitrary stateful hooks and every setting of the decision points, the error a failed parse reports is an entry of the log of match attempts that failed during that very parse, or the left-recursion sentinel, or the farthest-error default; with C04_errpos its offset is a character boundary inside the input. The no-sentinel clause is decided by the fact leftrec_closed plus the oracle.",
  note=TB,
  technique="Coq simulation proof (farthest error = fold of the failure log) + differential correspondence"),
 "C11": dict(
  category="proof",
  text="Coq theorem C11_pretty: for every text and every position 0..=len the model of PrettyParseError::from_parse_error (decision points regenerated from runtime/src/error.rs on every run) returns exactly the line, column and printed line the property defines and never panics; the model is tied to the real function by an exhaustive small-scope differential run (all texts of <=4/<=6 characters over a 5-character alphabet incl. multi-byte and newline, all boundary positions).",
  note=TB + "std's char_indices is modelled as 'offsets of non-continuation bytes'; colours off.",
  technique="Coq proof over a byte-level model with source-extracted configuration + exhaustive differential correspondence"),
}

checks = []
for pid, c in CLAIMS.items():
    checks.append({
        "property_id": pid,
        "quick_cmd": "./check %s --tier quick" % pid,
        "thorough_cmd": "./check %s --tier thorough" % pid,
        "evidence_file": "/verif/evidence/%s.json" % pid,
        "replay_cmd_template": "./check %s --replay {path}" % pid,
        "engine": "coq-model+correspondence",
        "level_claimed": {"category": c["category"], "text": c["text"], "design_ref": "DESIGN.md section 6, " + pid},
        "level_note": c["note"],
        "technique": c["technique"],
    })
na = [{"property_id": p["id"], "reason": "not yet claimed in this revision of /verif: its check is still being built (DESIGN.md section 8 staging); nothing about the technique rules it out"}
      for p in props if p["id"] not in CLAIMS]
m = {
    "version": 1,
    "setup_cmd": "./setup",
    "hooks": {"guard": "peginator_verif",
              "enable": "RUSTFLAGS=\"--cfg peginator_verif\" (set by lib/vp.py and lib/genrun.py for every harness build)",
              "baseline_off_cmd": "cd /repo && cargo test --workspace --no-fail-fast --offline",
              "source_commits": ["5c76090"], "add_only": True},
    "engines": [{"name": "coq-model+correspondence", "path": "/verif/check", "serves_properties": sorted(CLAIMS),
                 "kind_free_text": "Rocq/Coq 8.16 proofs about an executable Gallina model of the generated parsers and the runtime; model tied to /repo by a template translator (Extracted.v) and by differential execution of real generated parsers against the extracted model and specification"}],
    "checks": checks,
    "not_applicable": na,
    "notes": "See DESIGN.md. known_findings.json lists genuine defects (open = recorded, fixed = repaired by a fix: commit in /repo).",
}
json.dump(m, open(os.path.join(VERIF, "MANIFEST.json"), "w"), indent=1)
print("claimed:", sorted(CLAIMS))
