"""AST dump (s-expression printed by the real front end, harness `front dump`) -> Gallina term."""
import sys
import os
sys.path.insert(0, os.path.dirname(os.path.dirname(os.path.abspath(__file__))))
from lib.canon import parse_sexp


def name(a):
    assert a.startswith("n:")
    bs = bytes.fromhex(a[2:])
    return "[" + "; ".join(str(b) for b in bs) + "]%N"


def num(a):
    return "%s%%N" % a


def onum(a):
    return "None" if a == "-" else "(Some %s)" % num(a)


def item(x):
    h = x[0]
    if h == "hexa":
        return "(SIHexa %s %s)" % (num(x[1]), num(x[2]))
    if h == "simple":
        return "(SISimple %s)" % {"backslash": "EscBackslash", "cr": "EscCarriageReturn", "dquote": "EscDQuote",
                                  "nl": "EscNewline", "quote": "EscQuote", "tab": "EscTab"}[x[1]]
    if h == "utf8":
        return "(SIUtf8 %s %s)" % (num(x[1]), " ".join(onum(a) for a in x[2:7]))
    if h == "char":
        return "(SIChar %s)" % num(x[1])
    raise ValueError(x)


def lst(xs):
    return "[" + "; ".join(xs) + "]"


def expr(x):
    h = x[0]
    if h == "choice":
        return "(EChoice %s)" % lst(expr(a) for a in x[1:])
    if h == "seq":
        return "(ESeq %s)" % lst(expr(a) for a in x[1:])
    if h == "group":
        return "(EGroup %s)" % expr(x[1])
    if h == "opt":
        return "(EOptional %s)" % expr(x[1])
    if h == "closure":
        return "(EClosure %s %s)" % (expr(x[1]), "true" if x[2] == "1" else "false")
    if h == "neg":
        return "(ENeg %s)" % expr(x[1])
    if h == "pos":
        return "(EPos %s)" % expr(x[1])
    if h == "range":
        return "(ERange %s %s)" % (item(x[1]), item(x[2]))
    if h == "lit":
        return "(ELit %s %s)" % ("true" if x[1] == "1" else "false", lst(item(a) for a in x[2:]))
    if h == "eoi":
        return "EEoi"
    if h == "include":
        return "(EInclude %s)" % name(x[1])
    if h == "field":
        fn = x[1]
        f = "FNone" if fn == "none" else "FOverride" if fn == "override" else "(FNamed %s)" % name(fn[1])
        return "(EField %s %s %s)" % (f, "true" if x[2] == "1" else "false", name(x[3]))
    raise ValueError(x)


def path(p):
    return lst(name(a) for a in p)


def directive(d):
    if isinstance(d, str):
        return {"string": "DString", "no_skip_ws": "DNoSkipWs", "export": "DExport", "position": "DPosition",
                "memoize": "DMemoize", "leftrec": "DLeftrec"}[d]
    return "(DCheck %s)" % path(d[1])


def grule(r):
    h = r[0]
    if h == "rule":
        return "(GRule {| r_directives := %s; r_name := %s; r_def := %s |})" % (
            lst(directive(d) for d in r[1][1:]), name(r[2]), expr(r[3]))
    if h == "charrule":
        def part(p):
            if p[0] == "cchar":
                return "(CPChar %s)" % item(p[1])
            if p[0] == "crange":
                return "(CPRange %s %s)" % (item(p[1]), item(p[2]))
            return "(CPIdent %s)" % name(p[1])
        return "(GChar {| cr_checks := %s; cr_name := %s; cr_choices := %s |})" % (
            lst(path(c) for c in r[1][1:]), name(r[2]), lst(part(p) for p in r[3][1:]))
    if h == "extern":
        return "(GExtern {| er_function := %s; er_return := %s; er_name := %s |})" % (
            path(r[1]), "None" if r[2] == "noret" else "(Some %s)" % path(r[2]), name(r[3]))
    raise ValueError(r)


def grammar(sx):
    x = parse_sexp(sx)
    assert x[0] == "grammar"
    return "[\n  " + ";\n  ".join(grule(r) for r in x[1:]) + "\n]"


def module(defs, comment):
    out = ["(* GENERATED: %s. Do not edit. *)" % comment,
           "From PegV Require Import Utf8 State Syntax.", ""]
    for nm, sx in defs:
        out.append("Definition %s : grammar := %s." % (nm, grammar(sx)))
        out.append("")
    return "\n".join(out)


if __name__ == "__main__":
    print(module([("g", sys.stdin.read().strip())], "stdin"))
